#!/bin/bash
# apply each behaviour-preserving refactoring to /repo, run ALL quick checks (expect exit 0 everywhere), undo
cd /verif
for patch in "$@"; do
  name=$(echo $patch | sed 's#/tmp/##; s#/OUT/#-#; s#.diff##; s#/#-#g')
  if ! git -C /repo diff --quiet; then echo "/repo dirty"; exit 2; fi
  git -C /repo apply $patch || { echo "$name: patch does not apply"; continue; }
  line="$name:"
  for i in $(seq -w 1 18); do
    out=$(./check C$i --tier quick 2>&1); code=$?
    line="$line C$i=$code"
    if [ $code -ne 0 ]; then echo "   $name C$i exit=$code :: $(echo "$out" | grep -E 'what:|MACHINERY' | head -2 | cut -c1-250 | tr '\n' ' ')"; fi
  done
  echo "$line"
  git -C /repo checkout -- . && git -C /repo clean -fdq src
done

# the runs above rewrote evidence/*.json from a PATCHED tree: put the committed evidence (clean tree) back
git -C /verif checkout -q -- evidence 2>/dev/null || true
