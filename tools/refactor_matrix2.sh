#!/bin/bash
# apply each stored behaviour-preserving refactoring (refactorings/<name>/patch.ported.diff if present, else patch.diff) to
# /repo, run the quick checks listed in CHECKS (default: all 18; expect exit 0 everywhere), undo.
# usage: tools/refactor_matrix2.sh 'D*'   |   CHECKS="C02 C13" tools/refactor_matrix2.sh 'R*'
cd /verif
PAT=${1:-*}
for d in refactorings/$PAT/; do
  name=$(basename $d)
  pf=/verif/$d/patch.diff; [ -f /verif/$d/patch.ported.diff ] && pf=/verif/$d/patch.ported.diff
  [ -f $pf ] || continue
  if ! git -C /repo diff --quiet; then echo "/repo dirty"; exit 2; fi
  git -C /repo apply $pf 2>/dev/null || { echo "$name: patch does not apply"; git -C /repo reset -q --hard; continue; }
  line="$name:"
  for c in ${CHECKS:-C01 C02 C03 C04 C05 C06 C07 C08 C09 C10 C11 C12 C13 C14 C15 C16 C17 C18}; do
    out=$(./check $c --tier quick 2>&1); code=$?
    line="$line $c=$code"
    if [ $code -ne 0 ]; then echo "   $name $c exit=$code :: $(echo "$out" | grep -E 'what:|MACHINERY' | head -2 | cut -c1-250 | tr '\n' ' ')"; fi
  done
  echo "$line"
  git -C /repo reset -q --hard && git -C /repo clean -fdq src
done

# the runs above rewrote evidence/*.json from a PATCHED tree: put the committed evidence (clean tree) back
git -C /verif checkout -q -- evidence 2>/dev/null || true
