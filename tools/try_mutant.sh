#!/bin/bash
# usage: try_mutant.sh <patch.diff> <ID> [<ID>...]   — apply a seeded change to /repo, run checks, always revert
set -u
PATCH=$1; shift
cd /repo || exit 2
if ! git diff --quiet; then echo "/repo not clean"; exit 2; fi
git apply "$PATCH" || { echo "patch does not apply"; exit 2; }
trap 'git -C /repo checkout -- . ; git -C /repo clean -fdq src' EXIT
for id in "$@"; do
  out=$(cd /verif && VERIF_TIER=${TIER:-quick} ./check $id --tier ${TIER:-quick} 2>&1)
  code=$?
  echo "== $id exit=$code :: $(echo "$out" | grep -E 'VIOLATION|what:|MACHINERY' | head -3 | tr '\n' ' ')"
  echo "$out" | tail -1
done

# the runs above rewrote evidence/*.json from a PATCHED tree: put the committed evidence (clean tree) back
git -C /verif checkout -q -- evidence 2>/dev/null || true
