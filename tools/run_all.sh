#!/bin/bash
# run every check of a tier, print exit codes and wall time, validate the evidence files
TIER=${1:-quick}
cd /verif
for i in $(seq -w 1 18); do
  id=C$i; s=$(date +%s.%N)
  out=$(./check $id --tier $TIER 2>&1); code=$?
  e=$(date +%s.%N)
  printf "%s exit=%d %.1fs %s\n" $id $code $(echo "$e - $s" | bc) "$(echo "$out" | grep -E 'VIOLATION|MACHINERY' | head -2 | tr '\n' ' ' | cut -c1-200)"
done
python3-vt - <<'PY'
import json, jsonschema, glob
sch = json.load(open('/root/.vp/EVIDENCE.schema.json'))
for f in sorted(glob.glob('/verif/evidence/C*.json')):
    try:
        e = json.load(open(f)); jsonschema.validate(e, sch)
        c = e['coverage']
        print(f.split('/')[-1], 'valid', e['level'], 'eval', c.get('evaluations'), 'nontriv', c.get('distinct_nontrivial'), 'states', c.get('states'), 'samples', len(c.get('samples', [])))
    except Exception as ex:
        print(f, 'INVALID', str(ex)[:200])
PY
