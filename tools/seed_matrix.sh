#!/bin/bash
# For every seeded change under /verif/seeded/*/patch.diff: apply to /repo, run the listed checks, undo. Writes detection.txt next to the patch.
cd /verif
for d in seeded/*/; do
  name=$(basename $d); id=${name%%-*}
  checks=$(python3 -c "import json;print(' '.join(json.load(open('$d/meta.json')).get('checks_to_run',['$id'])))")
  [ -n "$ONLY" ] && [[ "$name" != $ONLY ]] && continue
  if ! git -C /repo diff --quiet; then echo "/repo dirty"; exit 2; fi
  git -C /repo apply /verif/$d/patch.diff || { echo "$name: patch does not apply"; continue; }
  : > $d/detection.txt
  for c in $checks; do
    out=$(./check $c --tier ${TIER:-quick} 2>&1); code=$?
    echo "$c tier=${TIER:-quick} exit=$code $(echo "$out" | grep -m1 'what:' | cut -c1-220)" | tee -a $d/detection.txt | sed "s/^/$name: /"
  done
  git -C /repo checkout -- . && git -C /repo clean -fdq src
done
