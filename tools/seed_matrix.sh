#!/bin/bash
# For every seeded change under /verif/seeded/*/patch.diff: apply to /repo, run the listed checks, undo. Writes detection.txt next to the patch.
cd /verif
for d in seeded/*/; do
  name=$(basename $d); id=${name%%-*}
  checks=$(python3 -c "import json;print(' '.join(json.load(open('$d/meta.json')).get('checks_to_run',['$id'])))")
  [ -n "$ONLY" ] && [[ "$name" != $ONLY ]] && continue
  if ! git -C /repo diff --quiet; then echo "/repo dirty"; exit 2; fi
  # the stored patches were made against /repo at 34d3df4; later fix: commits may shift context, so fall back to a 3-way apply
  pf=/verif/$d/patch.diff; [ -f /verif/$d/patch.ported.diff ] && pf=/verif/$d/patch.ported.diff
  git -C /repo apply $pf 2>/dev/null || git -C /repo apply -3 $pf 2>/dev/null || { echo "$name: patch does not apply"; git -C /repo reset -q --hard; continue; }
  : > $d/detection.txt
  for c in $checks; do
    out=$(./check $c --tier ${TIER:-quick} 2>&1); code=$?
    echo "$c tier=${TIER:-quick} exit=$code $(echo "$out" | grep -m1 'what:' | cut -c1-220)" | tee -a $d/detection.txt | sed "s/^/$name: /"
  done
  git -C /repo reset -q --hard && git -C /repo clean -fdq src
done

# the runs above rewrote evidence/*.json from a PATCHED tree: put the committed evidence (clean tree) back
git -C /verif checkout -q -- evidence 2>/dev/null || true
