"""C14: secret-independent execution in constant-time test mode, decided by exact trace equality
(self-composition over a finite input set) on LLVM-IR-level edge + load/store-address traces."""
import json, os, subprocess, sys, time
from verif_common import Report, MC, TARGET, env

SANCOV = ("-Cpasses=sancov-module -Cllvm-args=-sanitizer-coverage-level=3 -Cllvm-args=-sanitizer-coverage-trace-pc-guard "
          "-Cllvm-args=-sanitizer-coverage-trace-loads -Cllvm-args=-sanitizer-coverage-trace-stores")
TRIPLE = "x86_64-unknown-linux-gnu"


def build(profile):
    tdir = os.path.join(TARGET, "ct")
    e = env({"RUSTFLAGS": SANCOV, "CARGO_TARGET_DIR": tdir, "CARGO_INCREMENTAL": "0"})
    args = ["cargo", "build", "--offline", "--target", TRIPLE] + (["--release"] if profile == "release" else ["--profile", profile])
    r = subprocess.run(args, cwd=os.path.join(MC, "cttrace"), env=e, stdout=subprocess.PIPE, stderr=subprocess.STDOUT, text=True)
    if r.returncode != 0:
        # the subject may not build with verif-hooks (renamed internals): the whole-pipeline trace needs only `dudect`
        r2 = subprocess.run(args + ["--no-default-features"], cwd=os.path.join(MC, "cttrace"), env=e, stdout=subprocess.PIPE, stderr=subprocess.STDOUT, text=True)
        if r2.returncode == 0:
            r = r2
    if r.returncode != 0:
        sys.stderr.write(r.stdout[-4000:])
        return None
    return os.path.join(tdir, TRIPLE, profile, "cttrace")


def main(tier, evidence):
    rep = Report("C14", tier, "exploration")
    rep.rule = ("2-safety by self-composition: the harness and the whole dependency graph (fips204 with dudect + verif-hooks, sha3, keccak) are compiled with LLVM SanitizerCoverage "
                "(edge guards + every load/store address); every run's ordered event stream is folded into a 128-bit hash + event count; all runs of a group (inputs differing only in secret data) "
                "must give ONE trace. Groups: dudect_keygen_sign_with_rng for RNG answers {00, FF, AA, 55, 512 one-hot, counter} x 3 sets x 2 message lengths; scalar kernels on complete domains "
                "(center_mod, decompose on all 8380417 residues, reductions, make_hint r-sweeps for a z alphabet incl. 0 and q); vector kernels (norm, ntt, inv_ntt, to_mont, power2round, bit_pack, "
                "is_in_range on in-range inputs, mat_vec_mul, ExpandMask, ExpandS/HintBitPack in test mode) over one-hot x alphabet + extremal + pseudo-random vectors. Every input is a distinct non-trivial case "
                "(no test observes control flow). Normal-mode signing (rejection sampling active) is compared under secret-only variation: private keys that differ only in s1 and share the reference's rejection sequence "
                "(witnesses/ct_paired_s1.json, selected with the reference model so that the first out-of-bound position of z differs) have an identical public transcript and must give one trace. Two control groups (a leaky function, is_in_range on failing input) must show > 1 trace, else the tracer is blind (machinery error).")
    profiles = ["release"] + (["o3"] if tier == "thorough" else [])
    for prof in profiles:
        exe = build(prof)
        if exe is None:
            rep.machinery.append("instrumented build failed (profile %s)" % prof)
            continue
        r = subprocess.run([exe, tier], stdout=subprocess.PIPE, stderr=subprocess.PIPE, text=True, env=env(), timeout=7200)
        done = False
        for line in r.stdout.splitlines():
            try:
                g = json.loads(line)
            except Exception:
                continue
            if g.get("done"):
                done = True
                continue
            if g.get("no_kernels"):
                rep.caps.append("kernel groups not traced: fips204 does not build with verif-hooks; only the whole-pipeline groups were compared")
                continue
            name, n, d = g["group"], g["inputs"], g["distinct_traces"]
            fam = name.split(":")[0]
            if fam in ("selftest", "control"):
                rep.outcome("control_groups_with_more_than_one_trace", 1 if d > 1 else 0)
                if d < 2:
                    rep.machinery.append("control group %s shows %d trace(s): tracer does not see data-dependent control flow (profile %s)" % (name, d, prof))
                continue
            rep.count("%s[%s]" % (fam, prof), n)
            rep.outcome("groups_with_one_trace" if d == 1 else "groups_with_several_traces", 1)
            if len(rep.samples) < 10 and (name.startswith("pipeline:ml_dsa_44") or name.startswith("normal-mode-sign:ml_dsa_65") or name.startswith("decompose") or name.startswith("ntt:coeff")):
                rep.samples.append({"profile": prof, "group": name, "inputs": n, "distinct_traces": d, "events_per_run": g["examples"][0]["events"]})
            if d != 1:
                rep.violate("c14:%s" % fam, "profile %s, group %s: %d distinct edge/address traces over %d inputs that differ only in secret data; e.g. %s; first divergence: %s" % (prof, name, d, n, g["examples"][:3], g.get("first_divergence", "")),
                            {"engine": "cttrace", "profile": prof, "group": name, "examples": g["examples"]})
        if not done:
            rep.machinery.append("trace harness did not finish (exit %s): %s" % (r.returncode, r.stderr[-500:]))
    rep.extra["profiles"] = profiles
    rep.assumptions += ["decided at LLVM-IR level (sancov edges and addresses) as the property names compiler coverage instrumentation as its observation point; what an x86 back end makes of a branch-free IR select in a particular final binary is not visible here (DESIGN C14)",
                        "message and message length are public: traces are compared per (set, message length)"]
    if tier == "quick":
        rep.caps.append("quick: subject's release profile (opt-level s + LTO) only; 448 counter RNG answers; strided r/z sweeps for make_hint")
    return rep.finish(evidence)
