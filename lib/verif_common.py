import json, os, subprocess, sys, time, hashlib

ROOT = os.path.dirname(os.path.dirname(os.path.abspath(__file__)))
MC = os.path.join(ROOT, "mc")
TARGET = os.path.join(MC, "target")


def env(extra=None):
    e = dict(os.environ, CARGO_NET_OFFLINE="true", VERIF_ROOT=ROOT)
    e.pop("RUSTFLAGS", None)
    if extra:
        e.update(extra)
    return e


def known_findings(pid):
    out = []
    try:
        for line in open(os.path.join(ROOT, "known_findings.txt")):
            line = line.strip()
            if line.startswith("finding:") and ("property=%s " % pid) in line and "key=" in line:
                out.append(line.split("key=", 1)[1].split()[0])
    except FileNotFoundError:
        pass
    return out


class Report:
    def __init__(self, pid, tier, level):
        self.pid, self.tier, self.level = pid, tier, level
        self.t0 = time.time()
        self.evaluations = 0
        self.nontrivial = 0
        self.rule = ""
        self.samples = []
        self.classes = {}
        self.outcomes = {}
        self.extra = {}
        self.assumptions = []
        self.violations = []  # (key, summary, replay dict)
        self.machinery = []
        self.caps = []

    def count(self, cls, n=1, nontrivial=True):
        self.evaluations += n
        self.classes[cls] = self.classes.get(cls, 0) + n
        if nontrivial:
            self.nontrivial += n

    def outcome(self, name, n=1):
        self.outcomes[name] = self.outcomes.get(name, 0) + n

    def violate(self, key, summary, replay):
        self.violations.append((key, summary, replay))

    def finish(self, evidence_path):
        seed = int(os.environ.get("VERIF_SEED", "0") or 0)
        known = known_findings(self.pid)
        cov = {"evaluations": self.evaluations, "distinct_nontrivial": self.nontrivial, "rule": self.rule, "samples": self.samples[:12],
               "exhaustive": not self.caps, "caps_hit": self.caps, "classes": self.classes, "distinct_outcomes": self.outcomes}
        cov.update(self.extra)
        ev = {"property_id": self.pid, "tier": self.tier, "seed": seed, "level": self.level, "coverage": cov, "assumptions": self.assumptions,
              "wall_s": time.time() - self.t0, "violations": len(self.violations), "machinery_errors": self.machinery}
        os.makedirs(os.path.dirname(evidence_path), exist_ok=True)
        json.dump(ev, open(evidence_path, "w"), indent=1)
        code = 0
        seen = set()
        for key, summary, replay in self.violations:
            if any(k in key for k in known):
                print("KNOWN-FINDING: property=%s %s" % (self.pid, summary))
                continue
            if key in seen or len(seen) >= 8:
                continue
            seen.add(key)
            os.makedirs(os.path.join(ROOT, "replays"), exist_ok=True)
            body = json.dumps({"property": self.pid, "key": key, "summary": summary, "case": replay}, indent=1)
            path = os.path.join(ROOT, "replays", "%s-%s.json" % (self.pid, hashlib.sha256(body.encode()).hexdigest()[:16]))
            open(path, "w").write(body)
            print("VIOLATION property=%s replay=%s" % (self.pid, path))
            print("  what: " + summary)
            code = 1
        if code == 0 and self.machinery:
            for m in self.machinery:
                sys.stderr.write("MACHINERY-ERROR %s: %s\n" % (self.pid, m))
            code = 2
        print("[%s] tier=%s evaluations=%d distinct_nontrivial=%d violations=%d wall=%.1fs" % (self.pid, self.tier, self.evaluations, self.nontrivial, len(self.violations), time.time() - self.t0), flush=True)
        return code


def gc_deps(profile_dir, keep=2):
    """cargo never collects artifacts of earlier versions of a path dependency: every edit of /repo leaves a stale
    libfips204-<hash> (and dependents) behind. Keep the `keep` newest files per (crate, extension), delete the rest."""
    import glob, re
    deps = os.path.join(profile_dir, "deps")
    if not os.path.isdir(deps):
        return 0
    groups = {}
    for f in os.listdir(deps):
        m = re.match(r"^(lib)?(fips204|cfgprobe|nostd_probe|engines|mc|cttrace|osrng_probe|refmodel)-[0-9a-f]{16}(\..*)?$", f)
        if m:
            groups.setdefault((m.group(2), m.group(3) or ""), []).append(os.path.join(deps, f))
    removed = 0
    for files in groups.values():
        files.sort(key=lambda x: os.path.getmtime(x), reverse=True)
        for f in files[keep:]:
            try:
                os.remove(f)
                removed += 1
            except OSError:
                pass
    return removed
