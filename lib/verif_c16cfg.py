"""C16, feature-configuration half: the drop inspection of the known-answer probe (every byte of the former representation of
generated / deserialised / derived / cloned key objects) is run in the feature configurations, not only in the harness
configuration of the engines. quick: the four (default-rng x dudect) configurations with all three parameter sets plus the
dudect bench configuration [ml-dsa-44,dudect]; thorough: all 28. Build trees are shared with C17."""
import json, os, subprocess, hashlib
from concurrent.futures import ThreadPoolExecutor
from verif_common import MC, TARGET, ROOT, env, known_findings, gc_deps
import verif_c17


def one(idx, feats):
    tdir = os.path.join(TARGET, "cfg", "c%02d" % idx)
    e = env({"CARGO_TARGET_DIR": tdir, "CARGO_INCREMENTAL": "0"})
    r = subprocess.run(["cargo", "build", "--offline", "-j4", "--features", ",".join(feats)], cwd=os.path.join(MC, "cfgprobe"), env=e,
                       stdout=subprocess.PIPE, stderr=subprocess.STDOUT, text=True, timeout=1200)
    res = {"features": feats, "build": r.returncode == 0, "log": r.stdout[-800:] if r.returncode else "", "zeroize": {}}
    if r.returncode == 0:
        try:
            p = subprocess.run([os.path.join(tdir, "debug", "cfgprobe")], stdout=subprocess.PIPE, stderr=subprocess.STDOUT, text=True, timeout=240)
            res["exit"] = p.returncode
            for line in p.stdout.splitlines():
                if line.startswith("KAT "):
                    parts = line.split()
                    res["zeroize"][parts[1]] = dict(x.split("=", 1) for x in parts[2:]).get("zeroize")
        except subprocess.TimeoutExpired:
            res["exit"] = "timeout"
    gc_deps(os.path.join(tdir, "debug"), keep=3)
    return res


def main(tier, evidence):
    try:
        ev = json.load(open(evidence))
    except Exception:
        return 2
    cfgs = list(enumerate(verif_c17.configs()))
    if tier == "quick":
        cfgs = [(i, f) for i, f in cfgs if all(s in f for s in verif_c17.SETS) or f == ["ml-dsa-44", "dudect"]]
    with ThreadPoolExecutor(max_workers=8) as ex:
        results = list(ex.map(lambda x: one(*x), cfgs))
    viol, machinery, objs = [], [], 0
    for r in results:
        name = ",".join(r["features"])
        if not r["build"] or r.get("exit") != 0:
            # a configuration that does not build or whose probe crashes is C17's verdict, not C16's
            machinery.append("configuration [%s]: probe did not build/run (%s) - drop inspection not done there" % (name, r.get("exit", "build failed")))
            continue
        for s, z in r["zeroize"].items():
            objs += 7
            if z != "ok":
                viol.append(("c16:cfg:%s" % name, "configuration [%s]: ML-DSA-%s key objects keep non-zero bytes after drop" % (name, s), r["features"]))
    cov = ev["coverage"]
    cov["feature_configurations"] = {"configurations": len(results), "inspected": sum(1 for r in results if r["zeroize"]), "objects_dropped": objs,
                                     "list": [",".join(r["features"]) for r in results], "not_inspected": machinery}
    cov["evaluations"] += objs
    cov["distinct_nontrivial"] += objs
    ev["violations"] = (ev.get("violations") or 0) + len(viol)
    json.dump(ev, open(evidence, "w"), indent=1)
    known = known_findings("C16")
    code = 0
    for key, what, feats in viol:
        if any(k in key for k in known):
            print("KNOWN-FINDING: property=C16 " + what)
            continue
        body = json.dumps({"property": "C16", "key": key, "summary": what, "case": {"engine": "config", "features": feats, "release": False}}, indent=1)
        path = os.path.join(ROOT, "replays", "C16-%s.json" % hashlib.sha256(body.encode()).hexdigest()[:16])
        os.makedirs(os.path.dirname(path), exist_ok=True)
        open(path, "w").write(body)
        print("VIOLATION property=C16 replay=%s" % path)
        print("  what: " + what)
        code = 1
    print("[C16 configurations] inspected=%d/%d objects=%d violations=%d" % (cov["feature_configurations"]["inspected"], len(results), objs, len(viol)), flush=True)
    if not cov["feature_configurations"]["inspected"]:
        return 2 if code == 0 else code
    return code
