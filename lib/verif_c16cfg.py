"""C16, feature-configuration and optimisation-profile half: the drop inspection of the known-answer probe (every byte of the former representation of
generated / deserialised / derived / cloned key objects) is run in the feature configurations, not only in the harness
configuration of the engines. quick: the four (default-rng x dudect) configurations with all three parameter sets plus the
dudect bench configuration [ml-dsa-44,dudect]; thorough: all 28. Build trees are shared with C17.
The probe also drops Box<key> objects the ordinary way and reads the freed block back (token zeroize_heap): a wipe made of
ordinary stores is removed as dead stores in front of the deallocation, depending on how the CALLER's crate is optimised, so
the all-sets configuration is additionally built in several optimisation profiles of the dependent crate
(quick: opt-level 2 and 3 x debug-assertions off/on; thorough: opt-level 0,1,2,3,s x debug-assertions x lto)."""
import json, os, subprocess, hashlib
from concurrent.futures import ThreadPoolExecutor
from verif_common import MC, TARGET, ROOT, env, known_findings, gc_deps
import verif_c17


def one(idx, feats, variant=None):
    """variant = None: the probe's dev profile; else (opt_level, debug_assertions, lto): release profile with these overrides"""
    if variant is None:
        tdir = os.path.join(TARGET, "cfg", "c%02d" % idx)
        extra, sub, args = {}, "debug", []
    else:
        opt, da, lto = variant
        tdir = os.path.join(TARGET, "cfg", "opt_%s_%s_%s" % (opt, "da" if da else "nda", "lto" if lto else "nolto"))
        b = "true" if da else "false"
        extra = {"CARGO_PROFILE_RELEASE_OPT_LEVEL": str(opt), "CARGO_PROFILE_RELEASE_DEBUG_ASSERTIONS": b, "CARGO_PROFILE_RELEASE_OVERFLOW_CHECKS": b,
                 "CARGO_PROFILE_RELEASE_LTO": "fat" if lto else "false"}
        sub, args = "release", ["--release"]
    e = env(dict({"CARGO_TARGET_DIR": tdir, "CARGO_INCREMENTAL": "0"}, **extra))
    r = subprocess.run(["cargo", "build", "--offline", "-j4", "--features", ",".join(feats)] + args, cwd=os.path.join(MC, "cfgprobe"), env=e,
                       stdout=subprocess.PIPE, stderr=subprocess.STDOUT, text=True, timeout=1800)
    res = {"features": feats, "variant": variant, "build": r.returncode == 0, "log": r.stdout[-800:] if r.returncode else "", "zeroize": {}, "tokens": {}}
    if r.returncode == 0:
        try:
            p = subprocess.run([os.path.join(tdir, sub, "cfgprobe")], stdout=subprocess.PIPE, stderr=subprocess.STDOUT, text=True, timeout=240)
            res["exit"] = p.returncode
            for line in p.stdout.splitlines():
                if line.startswith("KAT "):
                    parts = line.split()
                    toks = dict(x.split("=", 1) for x in parts[2:])
                    res["tokens"][parts[1]] = toks
                    res["zeroize"][parts[1]] = toks.get("zeroize") if toks.get("zeroize_heap", "ok") == "ok" or toks.get("zeroize") != "ok" else "heap-" + toks["zeroize_heap"]
        except subprocess.TimeoutExpired:
            res["exit"] = "timeout"
    gc_deps(os.path.join(tdir, sub), keep=3)
    return res


def main(tier, evidence):
    try:
        ev = json.load(open(evidence))
    except Exception:
        return 2
    cfgs = list(enumerate(verif_c17.configs()))
    if tier == "quick":
        cfgs = [(i, f) for i, f in cfgs if all(s in f for s in verif_c17.SETS) or f == ["ml-dsa-44", "dudect"]]
    allsets = list(verif_c17.SETS)
    if tier == "quick":
        variants = [(2, False, False), (3, True, False)]
    else:
        variants = [(o, da, lto) for o in (0, 1, 2, 3, "s") for da in (False, True) for lto in (False, True)]
    jobs = [(i, f, None) for i, f in cfgs] + [(99, allsets, v) for v in variants]
    with ThreadPoolExecutor(max_workers=8) as ex:
        results = list(ex.map(lambda x: one(*x), jobs))
    viol, machinery, objs = [], [], 0
    for r in results:
        name = ",".join(r["features"]) + ("" if r.get("variant") is None else " built with opt-level=%s debug-assertions=%s lto=%s" % tuple(r["variant"]))
        if not r["build"] or r.get("exit") != 0:
            # a configuration that does not build or whose probe crashes is C17's verdict, not C16's
            machinery.append("configuration [%s]: probe did not build/run (%s) - drop inspection not done there" % (name, r.get("exit", "build failed")))
            continue
        for s, z in r["zeroize"].items():
            objs += 14
            if z != "ok":
                where = "in the freed heap block after an ordinary drop(Box<key>) (%s bytes)" % z.split(":")[-1] if str(z).startswith("heap-") else "after drop"
                viol.append(("c16:cfg:%s" % name, "configuration [%s]: ML-DSA-%s key objects keep non-zero bytes %s" % (name, s, where), r["features"]))
    cov = ev["coverage"]
    cov["feature_configurations"] = {"configurations": len(results), "inspected": sum(1 for r in results if r["zeroize"]), "objects_dropped": objs,
                                     "list": [",".join(r["features"]) + ("" if r.get("variant") is None else " @opt=%s,da=%s,lto=%s" % tuple(r["variant"])) for r in results], "not_inspected": machinery}
    cov["evaluations"] += objs
    cov["distinct_nontrivial"] += objs
    ev["violations"] = (ev.get("violations") or 0) + len(viol)
    json.dump(ev, open(evidence, "w"), indent=1)
    known = known_findings("C16")
    code = 0
    for key, what, feats in viol:
        if any(k in key for k in known):
            print("KNOWN-FINDING: property=C16 " + what)
            continue
        body = json.dumps({"property": "C16", "key": key, "summary": what, "case": {"engine": "config", "features": feats, "release": False}}, indent=1)
        path = os.path.join(ROOT, "replays", "C16-%s.json" % hashlib.sha256(body.encode()).hexdigest()[:16])
        os.makedirs(os.path.dirname(path), exist_ok=True)
        open(path, "w").write(body)
        print("VIOLATION property=C16 replay=%s" % path)
        print("  what: " + what)
        code = 1
    print("[C16 configurations] inspected=%d/%d objects=%d violations=%d" % (cov["feature_configurations"]["inspected"], len(results), objs, len(viol)), flush=True)
    if not cov["feature_configurations"]["inspected"]:
        return 2 if code == 0 else code
    return code
