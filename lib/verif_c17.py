"""C17: every supported feature combination builds (warning-free, no_std) and behaves the same.
Enumerates all 28 configurations (7 non-empty subsets of the parameter sets x default-rng x dudect)."""
import itertools, json, os, subprocess, sys, time
from concurrent.futures import ThreadPoolExecutor
from verif_common import Report, MC, TARGET, env, gc_deps
import shutil

SETS = ["ml-dsa-44", "ml-dsa-65", "ml-dsa-87"]


def configs():
    out = []
    for r in range(1, 4):
        for sub in itertools.combinations(SETS, r):
            for rng in (False, True):
                for dud in (False, True):
                    out.append(list(sub) + (["default-rng"] if rng else []) + (["dudect"] if dud else []))
    return out


def run(cmd, cwd, tdir, timeout=900):
    e = env({"CARGO_TARGET_DIR": tdir, "CARGO_INCREMENTAL": "0"})
    r = subprocess.run(cmd, cwd=cwd, env=e, stdout=subprocess.PIPE, stderr=subprocess.STDOUT, text=True, timeout=timeout)
    return r.returncode, r.stdout


def one(idx, feats, release, hooks_variant):
    tdir = os.path.join(TARGET, "cfg", "c%02d%s" % (idx, "r" if release else ""))
    f = ",".join(feats)
    rel = ["--release"] if release else []
    res = {"features": feats, "idx": idx}
    t = time.time()
    # (1) the crate itself, as the primary package (its #![deny(warnings, dead_code, ...)] is in force), hooks off
    c, out = run(["cargo", "build", "--offline", "--lib", "-j2", "--no-default-features", "--features", f] + rel, "/repo", tdir)
    res["lib_build"] = c == 0
    res["lib_log"] = out[-1500:] if c else ""
    if hooks_variant and c == 0:
        c2, out2 = run(["cargo", "build", "--offline", "--lib", "-j2", "--no-default-features", "--features", f + ",verif-hooks"] + rel, "/repo", tdir)
        res["hooks_build"] = c2 == 0
        res["hooks_log"] = out2[-1500:] if c2 else ""
    # (2) no_std static library with its own panic handler
    c, out = run(["cargo", "build", "--offline", "-j2", "--features", f] + rel, os.path.join(MC, "nostd_probe"), tdir)
    res["nostd_link"] = c == 0
    res["nostd_log"] = out[-1500:] if c else ""
    # (3) known-answer probe
    c, out = run(["cargo", "build", "--offline", "-j2", "--features", f] + rel, os.path.join(MC, "cfgprobe"), tdir)
    res["probe_build"] = c == 0
    res["probe_log"] = out[-1500:] if c else ""
    res["kat"] = {}
    if c == 0:
        exe = os.path.join(tdir, "release" if release else "debug", "cfgprobe")
        try:
            r = subprocess.run([exe], stdout=subprocess.PIPE, stderr=subprocess.STDOUT, text=True, timeout=240)
            res["probe_exit"] = r.returncode
            res["probe_out"] = r.stdout[-1500:]
            out_text = r.stdout
        except subprocess.TimeoutExpired as ex:
            res["probe_exit"] = "timeout"
            res["probe_out"] = "known-answer binary did not terminate within 240 s (normally < 1 s): " + str((ex.stdout or b"")[-300:])
            out_text = ""
        r = type("R", (), {"stdout": out_text})()
        for line in r.stdout.splitlines():
            if line.startswith("KAT "):
                parts = line.split()
                res["kat"][parts[1]] = dict(p.split("=", 1) for p in parts[2:])
    res["wall"] = time.time() - t
    gc_deps(os.path.join(tdir, "release" if release else "debug"), keep=3)
    if release:
        shutil.rmtree(tdir, ignore_errors=True)  # thorough (release) build trees are not kept
    return res


def main(tier, evidence):
    rep = Report("C17", tier, "exploration")
    rep.rule = ("all 28 configurations (7 non-empty subsets of {ml-dsa-44,-65,-87} x default-rng on/off x dudect on/off), hooks off, each: "
                "(1) cargo build --lib of /repo's working tree as primary package (deny(warnings, dead_code, ...) in force); (2) a #![no_std] staticlib with its own "
                "panic handler links against it; (3) a feature-forwarding known-answer binary prints, per enabled set, SHAKE256 over keys (both keygen entry points, derived pk), "
                "8 signatures (4 modes), 24+4 verification decisions incl. boundary cases forged for the zero-t1 key; digest must equal the reference model's and be equal across "
                "configurations; zeroize-on-drop and the OS-RNG wrappers are exercised in the same binary. Every configuration is a distinct non-trivial case (the suite runs the default one only).")
    cfgs = configs()
    release = tier == "thorough"
    # hooks-on lint guard for the full-set configurations
    hooks_idx = {i for i, f in enumerate(cfgs) if all(s in f for s in SETS)}
    with ThreadPoolExecutor(max_workers=12) as ex:
        results = list(ex.map(lambda x: one(x[0], x[1], release, x[0] in hooks_idx), enumerate(cfgs)))
    digests = {}
    dudects = {}
    for r in results:
        name = ",".join(r["features"])
        rep.count("configuration", 1)
        rpl = {"engine": "config", "features": r["features"], "release": release}
        if not r["lib_build"]:
            rep.violate("c17:lib-build", "configuration [%s]: cargo build --lib fails: %s" % (name, r["lib_log"].strip().splitlines()[-12:]), rpl)
            continue
        if r.get("hooks_build") is False:
            rep.machinery.append("configuration [%s] builds, but not with verif-hooks added: %s" % (name, r["hooks_log"][-400:]))
        if not r["nostd_link"]:
            rep.violate("c17:no_std-link", "configuration [%s]: a no_std static library does not link against the crate (std pulled in?): %s" % (name, r["nostd_log"].strip().splitlines()[-8:]), rpl)
        if not r["probe_build"]:
            rep.violate("c17:probe-build", "configuration [%s]: a dependent crate does not build against it: %s" % (name, r["probe_log"].strip().splitlines()[-8:]), rpl)
            continue
        if r.get("probe_exit") != 0:
            rep.violate("c17:probe-crash", "configuration [%s]: known-answer binary exited with %s: %s" % (name, r.get("probe_exit"), r.get("probe_out", "")[-400:]), rpl)
            continue
        want_sets = [s.split("-")[-1] for s in r["features"] if s.startswith("ml-dsa")]
        for s in want_sets:
            k = r["kat"].get(s)
            rep.count("set_in_configuration", 1)
            if k is None:
                rep.violate("c17:set-missing", "configuration [%s]: no output for ML-DSA-%s" % (name, s), rpl)
                continue
            if k["got"] != k["want"]:
                rep.violate("c17:kat-differs-from-reference", "configuration [%s]: ML-DSA-%s keys/signatures/decisions differ from the reference model" % (name, s), rpl)
            digests.setdefault(s, {}).setdefault(k["got"], []).append(name)
            if k.get("zeroize") != "ok":
                rep.violate("c17:zeroize", "configuration [%s]: ML-DSA-%s key objects are not erased on drop" % (name, s), rpl)
            if k.get("rngfail", "ok") != "ok":
                rep.violate("c17:rngfail", "configuration [%s]: ML-DSA-%s returns a key or signature although the caller's generator reported failure (other configurations report the error)" % (name, s), rpl)
            if k.get("zeroize_heap", "ok") != "ok":
                rep.violate("c17:zeroize-heap", "configuration [%s]: ML-DSA-%s key bytes survive an ordinary drop(Box<key>) (%s)" % (name, s, k.get("zeroize_heap")), rpl)
            if "default-rng" in r["features"] and k.get("osrng") != "ok":
                rep.violate("c17:osrng", "configuration [%s]: ML-DSA-%s OS-RNG wrappers misbehave" % (name, s), rpl)
            if "dudect" in r["features"]:
                dudects.setdefault(s, {}).setdefault(k.get("dudect"), []).append(name)
    for s, d in digests.items():
        rep.outcome("distinct_digests_mldsa%s" % s, len(d))
        if len(d) > 1:
            rep.violate("c17:kat-differs-between-configurations", "ML-DSA-%s behaves differently across configurations: %s" % (s, {k[:12]: v for k, v in d.items()}), {"engine": "config", "set": s})
    for s, d in dudects.items():
        if len(d) > 1:
            rep.violate("c17:dudect-differs-between-configurations", "ML-DSA-%s test-mode output differs across configurations: %s" % (s, {str(k)[:12]: v for k, v in d.items()}), {"engine": "config", "set": s})
    rep.samples = [{"features": r["features"], "lib_build": r["lib_build"], "nostd_link": r["nostd_link"], "kat": {s: k.get("got", "")[:16] for s, k in r["kat"].items()}, "wall_s": round(r["wall"], 1)} for r in results[:4] + results[-2:]]
    rep.extra["configurations"] = len(cfgs)
    rep.extra["profile"] = "release" if release else "dev"
    rep.assumptions.append("only the host target is installed: no_std is checked by linking a #![no_std] staticlib with its own panic handler, not by cross-compiling to a bare-metal target")
    return rep.finish(evidence)
