"""setup: build everything the checks need, from files on disk only (offline)."""
import os, subprocess, sys, time
from verif_common import MC, TARGET, ROOT, env


def main():
    t = time.time()
    e = env({"CARGO_TARGET_DIR": TARGET})
    for args in (["cargo", "build", "--offline", "-p", "engines", "--release"], ["cargo", "build", "--offline", "-p", "engines", "--profile", "fast"]):
        r = subprocess.run(args, cwd=MC, env=e)
        if r.returncode != 0:
            return 2
    # model-guided seed search results are cached (reference model only, independent of /repo)
    os.makedirs(os.path.join(TARGET, "cache"), exist_ok=True)
    subprocess.run([os.path.join(TARGET, "release", "mc"), "C04", "--tier", "quick", "--evidence", os.path.join(TARGET, "cache", "setup_C04.json")], cwd=ROOT, env=e, stdout=subprocess.DEVNULL)
    import verif_c14, verif_c17
    if verif_c14.build("release") is None:
        return 2
    verif_c17.main("quick", os.path.join(TARGET, "cache", "setup_C17.json"))
    try:
        # optimisation-profile builds of the configuration probe used by the quick tier of C16
        import verif_c16cfg
        for v in [(2, False, False), (3, True, False)]:
            verif_c16cfg.one(99, list(verif_c17.SETS), v)
    except Exception as ex:
        sys.stderr.write("c16 profile builds: %s\n" % ex)
    try:
        import verif_c12os
        verif_c12os.build()
    except Exception as ex:
        sys.stderr.write("c12os probe build: %s\n" % ex)
    print("setup done in %.0fs" % (time.time() - t))
    return 0
