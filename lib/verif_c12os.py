"""C12, OS-RNG convenience functions: observed through strace (getrandom syscalls), then every fault point enumerated
by re-running with strace's syscall fault injection. Appends an `os_rng` section to the evidence written by `mc C12`."""
import json, os, re, subprocess, sys, shutil
from verif_common import MC, TARGET, ROOT, env, known_findings
import hashlib


def build():
    tdir = os.path.join(TARGET, "osrng")
    r = subprocess.run(["cargo", "build", "--offline"], cwd=os.path.join(MC, "osrng_probe"), env=env({"CARGO_TARGET_DIR": tdir, "CARGO_INCREMENTAL": "0"}), stdout=subprocess.PIPE, stderr=subprocess.STDOUT, text=True)
    if r.returncode != 0:
        sys.stderr.write(r.stdout[-3000:])
        return None
    return os.path.join(tdir, "debug", "osrng_probe")


GR = re.compile(r'getrandom\("((?:\\x[0-9a-f]{2})*)"(?:\.\.\.)?, (\d+), [^)]*\)\s+= (-?\d+)')


def trace(exe, inject=None):
    """returns list of events in order: ('gr', nbytes_requested, ret, hexbytes) | ('line', text)"""
    cmd = ["strace", "-f", "-qq", "-xx", "-s", "64", "-e", "trace=getrandom,write"]
    if inject:
        cmd += ["-e", "inject=" + inject]
    cmd += [exe]
    r = subprocess.run(cmd, stdout=subprocess.PIPE, stderr=subprocess.PIPE, text=True, timeout=600)
    ev = []
    for line in r.stderr.splitlines():
        m = GR.search(line)
        if m:
            hx = m.group(1).replace("\\x", "")
            ev.append(("gr", int(m.group(2)), int(m.group(3)), hx))
            continue
        if "getrandom(" in line:  # failed / injected call: buffer printed as pointer
            m2 = re.search(r'getrandom\([^,]*, (\d+), [^)]*\)\s+= (-?\d+)', line)
            if m2:
                ev.append(("gr", int(m2.group(1)), int(m2.group(2)), ""))
            continue
        m = re.search(r'write\(1, "((?:\\x[0-9a-f]{2})*)"', line)
        if m:
            txt = bytes.fromhex(m.group(1).replace("\\x", "")).decode(errors="replace").strip()
            if txt:
                ev.append(("line", txt))
    return r.returncode, ev, r.stdout


def ops_of(ev):
    """group: for each START..OP pair, the getrandom calls in between"""
    out, cur = [], None
    for e in ev:
        if e[0] == "line" and e[1].startswith("START "):
            cur = {"name": e[1][6:], "gr": [], "result": None}
        elif e[0] == "gr" and cur is not None:
            cur["gr"].append(e)
        elif e[0] == "line" and e[1].startswith("OP ") and cur is not None:
            cur["result"] = e[1]
            out.append(cur)
            cur = None
    return out


def main(tier, evidence):
    try:
        ev = json.load(open(evidence))
    except Exception:
        return 2
    sec = {"ran": False}
    viol = []
    exe = build()
    if exe is None or shutil.which("strace") is None:
        sec["not_run_reason"] = "probe build failed or strace missing"
    else:
        code, events, _ = trace(exe)
        ops = ops_of(events)
        if code != 0 or not ops or not any(e[0] == "gr" for e in events):
            sec["not_run_reason"] = "strace/ptrace unavailable or probe failed (exit %s, %d ops seen)" % (code, len(ops))
        else:
            sec["ran"] = True
            sec["operations"] = len(ops)
            sec["baseline"] = [{"op": o["name"], "getrandom_calls": [(g[1], g[2]) for g in o["gr"]]} for o in ops[:6]]
            digests = {}
            for o in ops:
                res = o["result"].split()
                name = " ".join(res[1:3])
                o["gr"] = [g for g in o["gr"] if g[1] != 0]  # zero-length calls are the getrandom crate's one-off availability probe
                if len(o["gr"]) != 1 or o["gr"][0][1] != 32 or o["gr"][0][2] != 32:
                    viol.append(("c12:os:request-pattern", "%s made getrandom calls %s instead of one fresh 32-byte call" % (name, [(g[1], g[2]) for g in o["gr"]])))
                if res[3] != "ok":
                    viol.append(("c12:os:spurious-error", "%s failed with a working OS RNG: %s" % (name, o["result"])))
                    continue
                if "verifies=false" in o["result"]:
                    viol.append(("c12:os:invalid-signature", "%s returned a signature that does not verify" % name))
                digests.setdefault(res[1] + " " + res[2].split("#")[0], []).append(res[4])
                if "keygen" in res[2] and o["gr"] and o["gr"][0][3]:
                    want = subprocess.run([exe, "refkeygen", res[1], o["gr"][0][3]], stdout=subprocess.PIPE, text=True).stdout.strip()
                    if want != res[4]:
                        viol.append(("c12:os:keygen-not-function-of-draw", "%s: keys are not KeyGen_internal of the 32 bytes read from the OS" % name))
            for k, v in digests.items():
                if len(set(v)) != len(v):
                    viol.append(("c12:os:repeated-output", "%s returned identical outputs on two calls: randomness not fresh" % k))
            # ---- fault enumeration: every getrandom call of the baseline, failed in turn
            all_gr = [e for e in events if e[0] == "gr"]
            owner = {}
            idx = 0
            cur = None
            for e in events:
                if e[0] == "gr":
                    idx += 1
                    if cur is not None and e[1] == 32:
                        owner[idx] = cur
                elif e[0] == "line" and e[1].startswith("START "):
                    cur = e[1][6:]
                elif e[0] == "line" and e[1].startswith("OP "):
                    cur = None
            points = sorted(owner)
            if tier == "quick":
                points = points[::3]
            runs = 0
            for i in points:
                for kind, inj in (("EIO", "getrandom:error=EIO:when=%d" % i), ("short-read", "getrandom:retval=16:when=%d" % i)):
                    if kind == "short-read" and tier == "quick" and i % 2:
                        continue
                    c2, ev2, _ = trace(exe, inj)
                    runs += 1
                    ops2 = ops_of(ev2)
                    done = any(e[0] == "line" and e[1] == "DONE" for e in ev2)
                    if c2 != 0 or not done:
                        viol.append(("c12:os:crash-under-fault", "probe died (exit %s) when getrandom call %d (%s) was answered with %s" % (c2, i, owner[i], kind)))
                        continue
                    failed = [o["name"] for o in ops2 if " ERR " in o["result"]]
                    if kind == "EIO" and failed != [owner[i]]:
                        viol.append(("c12:os:fault-misreported", "getrandom call %d (owned by %s) failed with EIO, operations reporting an error: %s" % (i, owner[i], failed)))
                    if kind == "short-read" and failed:
                        viol.append(("c12:os:short-read", "short read on getrandom call %d made %s fail" % (i, failed)))
            sec["fault_points"] = len(points)
            sec["fault_runs"] = runs
            sec["getrandom_calls_in_baseline"] = len(all_gr)
    known = known_findings("C12")
    code = 0
    cov = ev["coverage"]
    cov["os_rng"] = sec
    if sec.get("ran"):
        cov["evaluations"] += sec["operations"] + sec.get("fault_runs", 0)
        cov["distinct_nontrivial"] += sec.get("fault_runs", 0)
    ev["violations"] = (ev.get("violations") or 0) + len(viol)
    json.dump(ev, open(evidence, "w"), indent=1)
    seen = set()
    for key, what in viol:
        if any(k in key for k in known):
            print("KNOWN-FINDING: property=C12 " + what)
            continue
        if key in seen:
            continue
        seen.add(key)
        body = json.dumps({"property": "C12", "key": key, "summary": what, "case": {"engine": "os_rng"}}, indent=1)
        path = os.path.join(ROOT, "replays", "C12-%s.json" % hashlib.sha256(body.encode()).hexdigest()[:16])
        os.makedirs(os.path.dirname(path), exist_ok=True)
        open(path, "w").write(body)
        print("VIOLATION property=C12 replay=%s" % path)
        print("  what: " + what)
        code = 1
    print("[C12 os_rng] ran=%s operations=%s fault_runs=%s violations=%d" % (sec.get("ran"), sec.get("operations"), sec.get("fault_runs"), len(viol)), flush=True)
    return code
