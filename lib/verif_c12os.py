def main(tier, evidence):
    return 0
