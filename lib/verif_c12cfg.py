"""C12, feature-configuration half: RNG failure must be reported (no key, no signature) by every RNG-taking entry point in the
configurations with and without the OS generator (`default-rng`), not only in the harness configuration: the known-answer
probe runs generators that fail before / after a partial fill with four error codes (token rngfail). Build trees shared with C17."""
import json, os, hashlib
from concurrent.futures import ThreadPoolExecutor
from verif_common import ROOT, known_findings
import verif_c17, verif_c16cfg


def main(tier, evidence):
    try:
        ev = json.load(open(evidence))
    except Exception:
        return 2
    cfgs = list(enumerate(verif_c17.configs()))
    if tier == "quick":
        cfgs = [(i, f) for i, f in cfgs if all(s in f for s in verif_c17.SETS) and "dudect" not in f]
    with ThreadPoolExecutor(max_workers=8) as ex:
        results = list(ex.map(lambda x: verif_c16cfg.one(x[0], x[1]), cfgs))
    viol, skipped, n = [], [], 0
    for r in results:
        name = ",".join(r["features"])
        if not r["build"] or r.get("exit") != 0:
            skipped.append(name)
            continue
        for s, toks in r["tokens"].items():
            n += 12
            if toks.get("rngfail") != "ok":
                viol.append(("c12:cfg:%s" % name, "configuration [%s]: ML-DSA-%s returns a key or signature although the caller's generator reported failure" % (name, s), r["features"]))
    cov = ev["coverage"]
    cov["feature_configurations"] = {"configurations": len(results), "fault_calls": n, "list": [",".join(r["features"]) for r in results], "not_run": skipped}
    cov["evaluations"] += n
    cov["distinct_nontrivial"] += n
    ev["violations"] = (ev.get("violations") or 0) + len(viol)
    json.dump(ev, open(evidence, "w"), indent=1)
    known = known_findings("C12")
    code = 0
    for key, what, feats in viol:
        if any(k in key for k in known):
            print("KNOWN-FINDING: property=C12 " + what)
            continue
        body = json.dumps({"property": "C12", "key": key, "summary": what, "case": {"engine": "config", "features": feats, "release": False}}, indent=1)
        path = os.path.join(ROOT, "replays", "C12-%s.json" % hashlib.sha256(body.encode()).hexdigest()[:16])
        os.makedirs(os.path.dirname(path), exist_ok=True)
        open(path, "w").write(body)
        print("VIOLATION property=C12 replay=%s" % path)
        print("  what: " + what)
        code = 1
    print("[C12 configurations] run=%d/%d fault_calls=%d violations=%d" % (len(results) - len(skipped), len(results), n, len(viol)), flush=True)
    if len(skipped) == len(results):
        return 2 if code == 0 else code
    return code
