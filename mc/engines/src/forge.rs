//! Construction of verification cases that sit exactly on a chosen boundary (DESIGN 3.1).

use crate::e3;
use refmodel::{format_message, hex, Mode, Params, PkCtx, Poly, SkCtx, POLY0};
use std::sync::Arc;

#[derive(Clone, Debug)]
pub struct VCase {
    pub class: String,
    pub pk: Arc<Vec<u8>>,
    pub mode: Mode,
    pub msg: Vec<u8>,
    pub ctx: Vec<u8>,
    pub sig: Vec<u8>,
    /// what the construction intends FIPS 204 to answer (cross-checked against the reference: a
    /// disagreement is a machinery error, not a verdict)
    pub intent: Option<bool>,
}
impl VCase {
    pub fn replay(&self, set: u32, expect: bool) -> serde_json::Value {
        serde_json::json!({"engine":"api","set":set,"ops":[{"op":"verify_bytes","class":self.class,"pk":hex(&self.pk),"mode":format!("{:?}",self.mode),
            "msg":hex(&self.msg),"ctx":hex(&self.ctx),"sig":hex(&self.sig),"expect":expect}]})
    }
}

/// M' as an implementation that serialises |ctx| mod 256 (no guard) would build it; used to forge
/// signatures for over-long contexts
pub fn wrapped_m_prime(mode: Mode, msg: &[u8], ctx: &[u8]) -> Vec<u8> {
    let mut mp = Vec::new();
    match mode {
        Mode::Internal => mp.extend_from_slice(msg),
        Mode::Pure => {
            mp.push(0);
            mp.push((ctx.len() % 256) as u8);
            mp.extend_from_slice(ctx);
            mp.extend_from_slice(msg);
        }
        _ => {
            mp.push(1);
            mp.push((ctx.len() % 256) as u8);
            mp.extend_from_slice(ctx);
            mp.extend_from_slice(&refmodel::oid(mode));
            mp.extend(refmodel::prehash(mode, msg));
        }
    }
    mp
}

pub fn small_z(p: &Params, salt: i32) -> Vec<Poly> {
    (0..p.l).map(|j| core::array::from_fn(|i| ((i as i32 * 31 + j as i32 * 17 + salt) % 201) - 100)).collect()
}
pub fn empty_hint_section(p: &Params) -> Vec<u8> { vec![0u8; p.omega + p.k] }

/// D2: one coefficient of z on each side of the norm bound, zero-t1 key
pub fn znorm_cases(p: &'static Params, pk0: &PkCtx, pkb: &Arc<Vec<u8>>, mode: Mode, msg: &[u8], ctx: &[u8], positions: &[usize], all_polys: bool) -> Vec<VCase> {
    let mp = format_message(mode, msg, ctx).unwrap();
    let g = (p.gamma1 - p.beta) as i32;
    let g1 = p.gamma1 as i32;
    let vals: Vec<(i32, bool)> = vec![
        (g - 2, true), (g - 1, true), (g, false), (g + 1, false), (g1 - 1, false), (g1, false),
        (-(g - 2), true), (-(g - 1), true), (-g, false), (-(g + 1), false), (-(g1 - 1), false),
    ];
    let polys: Vec<usize> = if all_polys { (0..p.l).collect() } else { vec![0, p.l - 1] };
    let mut out = Vec::new();
    for (bi, base) in [vec![POLY0; p.l], small_z(p, 0)].into_iter().enumerate() {
        for &j in &polys {
            for &i in positions {
                for &(v, ok) in &vals {
                    let mut z = base.clone();
                    z[j][i] = v;
                    let sig = refmodel::forge_zero_t1(pk0, &mp, &z, &vec![POLY0; p.k], &empty_hint_section(p));
                    out.push(VCase { class: format!("D2:z[{}]={}{}", if bi == 0 { "zero-bg" } else { "small-bg" }, if v < 0 { "-" } else { "+" }, boundary_name(p, v.abs())), pk: pkb.clone(), mode, msg: msg.to_vec(), ctx: ctx.to_vec(), sig, intent: Some(ok) });
                }
            }
        }
    }
    out
}
fn boundary_name(p: &Params, a: i32) -> String {
    let g = (p.gamma1 - p.beta) as i32;
    let g1 = p.gamma1 as i32;
    if a == g - 2 {
        "bound-2".into()
    } else if a == g - 1 {
        "bound-1".into()
    } else if a == g {
        "bound".into()
    } else if a == g + 1 {
        "bound+1".into()
    } else if a == g1 - 1 {
        "gamma1-1".into()
    } else if a == g1 {
        "gamma1".into()
    } else {
        format!("{a}")
    }
}

/// D3: hint-section strings inside otherwise valid forged signatures
pub fn hint_cases(p: &'static Params, pk0: &PkCtx, pkb: &Arc<Vec<u8>>, mode: Mode, msg: &[u8], ctx: &[u8], strings: &[e3::HintStr]) -> Vec<VCase> {
    let mp = format_message(mode, msg, ctx).unwrap();
    let z = small_z(p, 5);
    // A z is the same for all strings
    let az = refmodel::az_of(pk0, &z);
    strings
        .iter()
        .map(|hs| {
            let tr = e3::trace_alg21(p.k, p.omega, &hs.y);
            let hvec = match &tr.h {
                Some(h) => h.clone(),
                None => e3::liberal_decode(p.k, p.omega, &hs.y),
            };
            let sig = refmodel::forge_zero_t1_az(pk0, &mp, &z, &az, &hvec, &hs.y);
            VCase { class: format!("D3:{}:{:?}", hs.class, tr.verdict), pk: pkb.clone(), mode, msg: msg.to_vec(), ctx: ctx.to_vec(), sig, intent: Some(tr.verdict == e3::Verdict::Accept) }
        })
        .collect()
}

/// D4: commitment hash perturbed at every byte
pub fn ctilde_cases(p: &'static Params, pk0: &PkCtx, pkb: &Arc<Vec<u8>>, mode: Mode, msg: &[u8], ctx: &[u8]) -> Vec<VCase> {
    let mp = format_message(mode, msg, ctx).unwrap();
    let z = small_z(p, 9);
    let good = refmodel::forge_zero_t1(pk0, &mp, &z, &vec![POLY0; p.k], &empty_hint_section(p));
    let mut out = vec![VCase { class: "D4:ctilde-intact".into(), pk: pkb.clone(), mode, msg: msg.to_vec(), ctx: ctx.to_vec(), sig: good.clone(), intent: Some(true) }];
    for b in 0..p.ctilde_len() {
        let mut s = good.clone();
        s[b] ^= 1 << (b % 8);
        out.push(VCase { class: "D4:ctilde-byte-perturbed".into(), pk: pkb.clone(), mode, msg: msg.to_vec(), ctx: ctx.to_vec(), sig: s, intent: Some(false) });
    }
    out
}

/// D1: context lengths around the limit, with signatures forged over the wrapped length byte
pub fn ctxlen_cases(p: &'static Params, pk0: &PkCtx, pkb: &Arc<Vec<u8>>, mode: Mode, msg: &[u8], lens: &[usize]) -> Vec<VCase> {
    let z = small_z(p, 13);
    lens.iter()
        .map(|&l| {
            let ctx = crate::alpha::ctx(l);
            let mp = wrapped_m_prime(mode, msg, &ctx);
            let sig = refmodel::forge_zero_t1(pk0, &mp, &z, &vec![POLY0; p.k], &empty_hint_section(p));
            // for the internal interface ctx is only length-checked and never hashed
            VCase { class: format!("D1:ctxlen={l}"), pk: pkb.clone(), mode, msg: msg.to_vec(), ctx, sig, intent: Some(l <= 255) }
        })
        .collect()
}

/// D6: honest key: honest signature, each field perturbed, and relaxed-signer signatures whose only defect is the z norm
pub fn honest_cases(p: &'static Params, skc: &SkCtx, pkb: &Arc<Vec<u8>>, mode: Mode, msg: &[u8], ctx: &[u8], n_relaxed: usize) -> Vec<VCase> {
    let mut out = Vec::new();
    let rnd = [0x5Au8; 32];
    let sig = refmodel::sign(skc, mode, msg, ctx, &rnd).unwrap();
    let mk = |class: &str, sig: Vec<u8>, msg: &[u8], ctx: &[u8], mode: Mode, intent: Option<bool>| VCase { class: class.into(), pk: pkb.clone(), mode, msg: msg.to_vec(), ctx: ctx.to_vec(), sig, intent };
    out.push(mk("D6:honest", sig.clone(), msg, ctx, mode, Some(true)));
    for (nm, pos) in [("ctilde", 1usize), ("z-first", p.ctilde_len()), ("z-last", p.hint_off() - 1), ("hint-index0", p.hint_off()), ("hint-count-last", p.sig_len - 1), ("hint-pad-last", p.hint_off() + p.omega - 1)] {
        for bit in [0u8, 7] {
            let mut s = sig.clone();
            s[pos] ^= 1 << bit;
            out.push(mk(&format!("D6:honest-{nm}-perturbed"), s, msg, ctx, mode, None));
        }
    }
    let mut m2 = msg.to_vec();
    m2.push(0);
    out.push(mk("D6:honest-msg-extended", sig.clone(), &m2, ctx, mode, Some(false)));
    if mode != Mode::Internal {
        let mut c2 = ctx.to_vec();
        if c2.len() < 255 {
            c2.push(0)
        } else {
            c2[254] ^= 1
        };
        out.push(mk("D6:honest-ctx-changed", sig.clone(), msg, &c2, mode, Some(false)));
    }
    // relaxed signer: z-norm check disabled; keep those whose z norm is actually >= gamma1 - beta
    let mut found = 0;
    let mut i = 0u32;
    while found < n_relaxed && i < 400 {
        let m = [msg, &i.to_le_bytes()[..]].concat();
        let mp = format_message(mode, &m, ctx).unwrap();
        let (s, info) = refmodel::sign_internal_ctx(skc, &mp, &rnd, &refmodel::SignOpts { skip_z_check: true, ..Default::default() });
        if let Some(s) = s {
            if info.z_norm >= p.gamma1 - p.beta {
                out.push(mk("D6:relaxed-signer-only-z-norm-defect", s, &m, ctx, mode, Some(false)));
                found += 1;
            }
        }
        i += 1;
    }
    out
}


/// D3b: search small response vectors z until w = A z has a coefficient in each UseHint corner class, then place ONE
/// hint bit on that coefficient (c_tilde computed for that hint), plus the same signature without the bit.
/// pseudo-random small response vector number `salt` (coefficients in [-100, 100])
pub fn small_z_prng(p: &Params, salt: i32) -> Vec<Poly> {
    let bytes = refmodel::shake256(&[b"small-z", &salt.to_le_bytes()], p.l * 256);
    (0..p.l).map(|j| core::array::from_fn(|i| i32::from(bytes[j * 256 + i]) % 201 - 100)).collect()
}

pub fn usehint_corner_cases(p: &'static Params, pk0: &PkCtx, pkb: &Arc<Vec<u8>>, max_z: i32) -> Vec<VCase> {
    let m = (refmodel::Q - 1) / (2 * p.gamma2);
    let classes: Vec<(&str, Box<dyn Fn(i64, i64) -> bool>)> = vec![
        ("r0=0", Box::new(|_r1, r0| r0 == 0)),
        ("r0=1", Box::new(|_r1, r0| r0 == 1)),
        ("r0=-1", Box::new(|_r1, r0| r0 == -1)),
        ("r0=gamma2", Box::new(move |_r1, r0| r0 == p.gamma2)),
        ("r0=-gamma2+1", Box::new(move |_r1, r0| r0 == -p.gamma2 + 1)),
        ("r1=0,r0<=0(wrap to m-1)", Box::new(|r1, r0| r1 == 0 && r0 <= 0)),
        ("r1=m-1,r0>0(wrap to 0)", Box::new(move |r1, r0| r1 == m - 1 && r0 > 0)),
        ("decompose-corner(r0 decremented)", Box::new(move |r1, r0| r1 == 0 && r0 < -p.gamma2 + 1)),
    ];
    let mut found: Vec<Option<(i32, usize, usize)>> = vec![None; classes.len()];
    let mut salt = 0;
    while salt < max_z && found.iter().any(|f| f.is_none()) {
        use rayon::prelude::*;
        let ws: Vec<(i32, Vec<Poly>)> = (salt..salt + 64).into_par_iter().map(|s| (s, refmodel::az_of(pk0, &small_z_prng(p, s)))).collect();
        for (sl, w) in ws {
            for (k, poly) in w.iter().enumerate() {
                for (n, &c) in poly.iter().enumerate() {
                    let (r1, r0) = refmodel::decompose(p.gamma2, i64::from(c));
                    for (ci, (_, f)) in classes.iter().enumerate() {
                        if found[ci].is_none() && f(r1, r0) {
                            found[ci] = Some((sl, k, n));
                        }
                    }
                }
            }
        }
        salt += 64;
    }
    let mp = format_message(Mode::Pure, b"use-hint-corner", b"").unwrap();
    let mut out = Vec::new();
    for ((name, _), f) in classes.iter().zip(found) {
        let Some((salt, k, n)) = f else { continue };
        let z = small_z_prng(p, salt);
        let mut h = vec![POLY0; p.k];
        h[k][n] = 1;
        let y = refmodel::hint_bit_pack(p.k, p.omega, &h);
        let sig = refmodel::forge_zero_t1(pk0, &mp, &z, &h, &y);
        out.push(VCase { class: format!("D3b:hint-bit-on:{name}"), pk: pkb.clone(), mode: Mode::Pure, msg: b"use-hint-corner".to_vec(), ctx: vec![], sig, intent: Some(true) });
        // the same hint section with c_tilde computed for NO hint: must be rejected unless UseHint is the identity there
        let sig2 = refmodel::forge_zero_t1(pk0, &mp, &z, &vec![POLY0; p.k], &y);
        out.push(VCase { class: format!("D3b:hint-bit-ignored-commitment:{name}"), pk: pkb.clone(), mode: Mode::Pure, msg: b"use-hint-corner".to_vec(), ctx: vec![], sig: sig2, intent: Some(false) });
    }
    out
}

/// D7b: response vectors supported on {0, 128, 64, ..., 1} whose coefficients are chosen (complete enumeration per
/// layer, guided by the textbook transform) to push NTT output slot 0 to its extreme; valid signatures under the zero-t1 key
pub fn butterfly_cases(p: &'static Params, pk0: &PkCtx, pkb: &Arc<Vec<u8>>) -> Vec<VCase> {
    let g = p.gamma1 - p.beta - 1;
    let zt = refmodel::zetas();
    let mut out = Vec::new();
    for sign in [1i64, -1] {
        let mut w = POLY0;
        for l in 0..8 {
            let len = 128usize >> l;
            let zeta = zt[1 << l];
            // maximise the centred representative of zeta * v
            let best = (-g..=g).max_by_key(|&v| refmodel::mod_pm(zeta * v, refmodel::Q) * sign).unwrap();
            w[len] = best as i32;
        }
        w[0] = (sign * g) as i32;
        for poly in [0, p.l - 1] {
            let mut z = vec![POLY0; p.l];
            z[poly] = w;
            let mp = format_message(Mode::Pure, b"butterfly", b"").unwrap();
            let sig = refmodel::forge_zero_t1(pk0, &mp, &z, &vec![POLY0; p.k], &empty_hint_section(p));
            out.push(VCase { class: format!("D7b:butterfly-path:sign{sign}:poly{poly}"), pk: pkb.clone(), mode: Mode::Pure, msg: b"butterfly".to_vec(), ctx: vec![], sig, intent: Some(true) });
        }
    }
    out
}

/// number of index bytes SampleInBall (Algorithm 29) squeezes for this commitment hash (tau plus the rejected candidates)
pub fn sib_bytes(tau: usize, c_tilde: &[u8]) -> usize {
    use sha3::digest::{ExtendableOutput, Update, XofReader};
    let mut x = sha3::Shake256::default();
    x.update(c_tilde);
    let mut rd = x.finalize_xof();
    let mut s = [0u8; 8];
    rd.read(&mut s);
    let mut n = 0usize;
    for i in (256 - tau)..256 {
        let mut j = [0u8; 1];
        rd.read(&mut j);
        n += 1;
        while usize::from(j[0]) > i {
            rd.read(&mut j);
            n += 1;
        }
    }
    n
}

/// D4b: commitment hashes selected by exhaustive search for the LONGEST SampleInBall rejection runs
/// (witnesses/sample_in_ball_long.json: hash does not match, FIPS 204 rejects; witnesses/sib_valid.json: messages for which
/// the zero-t1 forgery with rho = 42^32, z = small_z(9) is valid, FIPS 204 accepts). Returns (cases, machinery errors).
pub fn sib_long_cases(p: &'static Params, pk0: &PkCtx, pkb: &Arc<Vec<u8>>) -> (Vec<VCase>, Vec<String>) {
    let mut out = Vec::new();
    let mut errs = Vec::new();
    let root = crate::report::verif_root();
    let z = small_z(p, 9);
    let load = |name: &str| -> Vec<serde_json::Value> {
        std::fs::read_to_string(format!("{root}/witnesses/{name}"))
            .ok()
            .and_then(|t| serde_json::from_str::<serde_json::Value>(&t).ok())
            .and_then(|v| v["witnesses"].as_array().cloned())
            .unwrap_or_default()
            .into_iter()
            .filter(|w| w["set"].as_u64() == Some(p.id as u64))
            .collect()
    };
    for w in load("sample_in_ball_long.json") {
        let ct = refmodel::unhex(w["c_tilde"].as_str().unwrap_or(""));
        let n = w["index_bytes"].as_u64().unwrap_or(0) as usize;
        if ct.len() != p.ctilde_len() || sib_bytes(p.tau, &ct) != n {
            errs.push(format!("sample_in_ball_long.json: ML-DSA-{} witness does not squeeze the recorded {n} index bytes", p.id));
            continue;
        }
        let mut s = ct;
        for zi in &z {
            s.extend(refmodel::bit_pack(zi, p.gamma1 - 1, p.gamma1));
        }
        s.extend(empty_hint_section(p));
        out.push(VCase { class: format!("D4b:ctilde-with-{n}-SampleInBall-index-bytes:hash-mismatch"), pk: pkb.clone(), mode: Mode::Pure, msg: b"sib".to_vec(), ctx: vec![], sig: s, intent: Some(false) });
    }
    for w in load("sib_valid.json") {
        let msg = w["msg"].as_str().unwrap_or("").as_bytes().to_vec();
        let n = w["index_bytes"].as_u64().unwrap_or(0) as usize;
        let mp = format_message(Mode::Pure, &msg, b"").unwrap();
        let sig = refmodel::forge_zero_t1(pk0, &mp, &z, &vec![POLY0; p.k], &empty_hint_section(p));
        if sib_bytes(p.tau, &sig[..p.ctilde_len()]) != n {
            errs.push(format!("sib_valid.json: ML-DSA-{} message {:?} does not give the recorded {n} index bytes (was the witness made for another public key?)", p.id, w["msg"]));
            continue;
        }
        out.push(VCase { class: format!("D4b:valid-forgery-with-{n}-SampleInBall-index-bytes"), pk: pkb.clone(), mode: Mode::Pure, msg, ctx: vec![], sig, intent: Some(true) });
    }
    (out, errs)
}
