pub fn replay_file(_p: &str) -> i32 { 2 }
