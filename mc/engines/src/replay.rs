//! `mc replay <file>`: re-execute one recorded case with the plain API (no explorer), twice, and require
//! identical observations both times. exit 1 = the violation reproduces, 0 = it does not, 2 = cannot replay.

use crate::alpha::{mode_from_str, Probe};
use crate::e1;
use crate::rng::ScriptRng;
use crate::subject::{api, PkOps, SkOps};
use refmodel::{hex, unhex, PkCtx, SkCtx};
use serde_json::Value;

fn probe_of(v: &Value) -> Probe {
    Probe { mode: mode_from_str(v["mode"].as_str().unwrap()), msg: unhex(v["msg"].as_str().unwrap()), ctx: unhex(v["ctx"].as_str().unwrap()), rnd: unhex(v["rnd"].as_str().unwrap()).try_into().unwrap() }
}

/// returns (observation, violates?)
fn run_case(case: &Value) -> Result<(String, bool), String> {
    let engine = case["engine"].as_str().unwrap_or("");
    let set = case["set"].as_u64().unwrap_or(0) as u32;
    match engine {
        "e1" => {
            let a = api(set);
            let p = a.p;
            let xi: [u8; 32] = unhex(case["seed"].as_str().unwrap()).try_into().unwrap();
            let init = if case["init"].as_str() == Some("Rng") { e1::Init::Rng } else { e1::Init::Seed };
            let mut st = e1::init_state(a, &xi, init)?;
            let s0 = st.clone();
            let mut obs = format!("init {}", st.fp());
            let mut bad = false;
            for act in case["path"].as_array().unwrap() {
                let act = e1::act_from_str(act.as_str().unwrap());
                match e1::step(a, &st, act) {
                    Ok(s2) => {
                        if s2 != st {
                            bad = true;
                        }
                        obs += &format!(" -{act:?}-> {}", s2.fp());
                        st = s2;
                    }
                    Err(e) => return Ok((format!("{obs} -{act:?}-> FAILED: {e}"), true)),
                }
            }
            if !case["probe"].is_null() {
                let pr = probe_of(&case["probe"]);
                let pk = (a.pk_from_raw)(&st.pk);
                let sk = (a.sk_from_raw)(&st.sk);
                let o = e1::run_probe(pk.as_ref(), sk.as_ref(), &pr);
                let kg = refmodel::keygen_internal(p, &xi);
                let want = refmodel::sign(&SkCtx::new(p, &kg.sk), pr.mode, &pr.msg, &pr.ctx, &pr.rnd);
                match &o {
                    e1::ProbeObs::Sig(s, v) => {
                        obs += &format!(" probe: sig {} verify={v} equals_reference={}", &hex(s)[..32], Some(s) == want.as_ref());
                        if !*v || Some(s) != want.as_ref() {
                            bad = true;
                        }
                    }
                    other => {
                        obs += &format!(" probe: {other:?}");
                        bad = true;
                    }
                }
            }
            let _ = s0;
            Ok((obs, bad))
        }
        "api" => {
            let a = api(set);
            let p = a.p;
            let mut sk: Option<(Box<dyn SkOps>, Vec<u8>)> = None;
            let mut pk: Option<Box<dyn PkOps>> = None;
            let mut obs = String::new();
            let mut bad = false;
            for op in case["ops"].as_array().ok_or("no ops")? {
                match op["op"].as_str().unwrap_or("") {
                    "keygen_seed" => {
                        let xi: [u8; 32] = unhex(op["seed"].as_str().unwrap()).try_into().unwrap();
                        let (k, s) = (a.keygen_seed)(&xi).map_err(|p| p.0)?;
                        let kg = refmodel::keygen_internal(p, &xi);
                        pk = Some(k);
                        sk = Some((s, kg.sk));
                        obs += "keygen;";
                    }
                    "keygen_both" => {
                        let xi: [u8; 32] = unhex(op["seed"].as_str().unwrap()).try_into().unwrap();
                        let kg = refmodel::keygen_internal(p, &xi);
                        match (a.keygen_seed)(&xi) {
                            Err(pn) => {
                                obs += &format!("keygen_from_seed panicked: {};", pn.0);
                                bad = true;
                            }
                            Ok((k, s)) => {
                                let same = k.to_bytes().ok().as_ref() == Some(&kg.pk) && s.to_bytes().ok().as_ref() == Some(&kg.sk);
                                obs += &format!("keygen_from_seed equals reference: {same};");
                                bad |= !same;
                            }
                        }
                        let mut rng = ScriptRng::ok(&xi);
                        match (a.keygen_rng)(&mut rng) {
                            Ok(Ok((k, s))) => {
                                let same = k.to_bytes().ok().as_ref() == Some(&kg.pk) && s.to_bytes().ok().as_ref() == Some(&kg.sk);
                                obs += &format!("try_keygen_with_rng equals reference: {same}, rng log {:?};", rng.log);
                                bad |= !same || rng.log != [32];
                            }
                            other => {
                                obs += &format!("try_keygen_with_rng: {:?};", other.map(|r| r.map(|_| "ok")).map_err(|p| p.0));
                                bad = true;
                            }
                        }
                    }
                    "dudect" => {
                        let d = unhex(op["rng"].as_str().unwrap());
                        let m = unhex(op["msg"].as_str().unwrap_or(""));
                        let mut rng = ScriptRng::oks(&[&d, &d]);
                        match (a.dudect)(&mut rng, &m) {
                            Err(pn) => {
                                obs += &format!("dudect_keygen_sign_with_rng panicked: {};", pn.0);
                                bad = true;
                            }
                            Ok(r) => obs += &format!("dudect_keygen_sign_with_rng returned {};", if r.is_ok() { "Ok" } else { "Err" }),
                        }
                    }
                    "sk_from_bytes" | "sk_from_bytes_expect" | "sk_roundtrip" | "sk_exercise" => {
                        let b = unhex(op["sk"].as_str().unwrap());
                        let r = (a.sk_from_bytes)(&b);
                        let in_range = refmodel::sk_fields_in_range(p, &b);
                        match r {
                            Err(pn) => {
                                obs += &format!("try_from_bytes panicked: {};", pn.0);
                                bad = true;
                            }
                            Ok(Err(e)) => {
                                obs += &format!("try_from_bytes Err({e}) (fields in range: {in_range});");
                                bad |= in_range;
                            }
                            Ok(Ok(k)) => {
                                obs += &format!("try_from_bytes Ok (fields in range: {in_range});");
                                bad |= !in_range;
                                match k.to_bytes() {
                                    Ok(b2) => {
                                        obs += &format!("into_bytes round-trips: {};", b2 == b);
                                        bad |= b2 != b;
                                    }
                                    Err(pn) => {
                                        obs += &format!("into_bytes panicked: {};", pn.0);
                                        bad = true;
                                    }
                                }
                                if let Err(pn) = k.derive_pk() {
                                    obs += &format!("get_public_key panicked: {};", pn.0);
                                    bad = true;
                                }
                                sk = Some((k, b));
                            }
                        }
                    }
                    "pk_roundtrip" => {
                        let b = unhex(op["pk"].as_str().unwrap());
                        match (a.pk_from_bytes)(&b) {
                            Ok(Ok(k)) => match k.to_bytes() {
                                Ok(b2) => {
                                    obs += &format!("pk round-trips: {};", b2 == b);
                                    bad |= b2 != b;
                                }
                                Err(pn) => {
                                    obs += &format!("into_bytes panicked: {};", pn.0);
                                    bad = true;
                                }
                            },
                            other => {
                                obs += &format!("try_from_bytes: {:?};", other.map(|r| r.map(|_| "ok")).map_err(|p| p.0));
                                bad = true;
                            }
                        }
                    }
                    "sign" => {
                        let pr = probe_of(&op["probe"]);
                        let (k, skb) = sk.as_ref().ok_or("sign without key")?;
                        let want = refmodel::sign(&SkCtx::new(p, skb), pr.mode, &pr.msg, &pr.ctx, &pr.rnd);
                        let mut rng = ScriptRng::ok(&pr.rnd);
                        match k.sign(pr.mode, &mut rng, &pr.msg, &pr.ctx) {
                            Ok(Ok(s)) => {
                                obs += &format!("sign -> {}.. equals reference: {};", &hex(&s)[..32], Some(&s) == want.as_ref());
                                bad |= Some(&s) != want.as_ref();
                            }
                            other => {
                                obs += &format!("sign -> {:?};", other.map(|r| r.map(|_| "sig")).map_err(|p| p.0));
                                bad = true;
                            }
                        }
                    }
                    "verify_bytes" | "verify_with" => {
                        let k: Box<dyn PkOps> = if let Some(b) = op["pk"].as_str().filter(|s| s.len() > 64) {
                            match (a.pk_from_bytes)(&unhex(b)) {
                                Ok(Ok(k)) => k,
                                _ => return Ok(("public key import failed".into(), true)),
                            }
                        } else {
                            pk.take().ok_or("verify without key")?
                        };
                        let mode = mode_from_str(op["mode"].as_str().unwrap());
                        let (m, c, s) = (unhex(op["msg"].as_str().unwrap()), unhex(op["ctx"].as_str().unwrap()), unhex(op["sig"].as_str().unwrap()));
                        let want = if let Some(b) = op["pk"].as_str().filter(|s| s.len() > 64) { refmodel::verify(&PkCtx::new(p, &unhex(b)), mode, &m, &c, &s) } else { op["expect"].as_bool().unwrap_or(false) };
                        match k.verify(mode, &m, &s, &c) {
                            Ok(d) => {
                                obs += &format!("verify -> {d}, FIPS 204 reference -> {want};");
                                bad |= d != want;
                            }
                            Err(pn) => {
                                obs += &format!("verify panicked: {};", pn.0);
                                bad = true;
                            }
                        }
                    }
                    "flip_verify" => {
                        let mode = mode_from_str(op["mode"].as_str().unwrap());
                        let (mut pkb, mut m, mut c, mut s) = (unhex(op["pk"].as_str().unwrap()), unhex(op["msg"].as_str().unwrap()), unhex(op["ctx"].as_str().unwrap()), unhex(op["sig"].as_str().unwrap()));
                        let bit = op["bit"].as_u64().unwrap() as usize;
                        let tgt = match op["field"].as_str().unwrap() {
                            "sig" => &mut s,
                            "pk" => &mut pkb,
                            "msg" => &mut m,
                            _ => &mut c,
                        };
                        tgt[bit / 8] ^= 1 << (bit % 8);
                        match (a.pk_from_bytes)(&pkb) {
                            Ok(Ok(k)) => match k.verify(mode, &m, &s, &c) {
                                Ok(d) => {
                                    obs += &format!("verify of the mutated tuple -> {d};");
                                    bad |= d;
                                }
                                Err(pn) => {
                                    obs += &format!("panic {};", pn.0);
                                    bad = true;
                                }
                            },
                            _ => obs += "mutated public key rejected;",
                        }
                    }
                    other => return Err(format!("op '{other}' is replayed by re-running the check (./check <ID>)")),
                }
            }
            Ok((obs, bad))
        }
        #[cfg(feature = "kernels")]
        "e7" => {
            let p = refmodel::params(set);
            let rho: [u8; 32] = unhex(case["rho"].as_str().unwrap()).try_into().unwrap();
            let z = crate::e7::z_from_json(p, &case["z"]);
            let ev = crate::e7::evaluate_dyn(p, &rho, &z);
            Ok((format!("row sums/q {:.1}, panic {:?}, matches reference {}", ev.max_abs_sum_over_q, ev.panic, ev.matches_reference), ev.panic.is_some() || !ev.matches_reference))
        }
        other => Err(format!("engine '{other}' cases are replayed by re-running the check (./check <ID>)")),
    }
}

pub fn replay_file(path: &str) -> i32 {
    let Ok(text) = std::fs::read_to_string(path) else {
        eprintln!("cannot read {path}");
        return 2;
    };
    let Ok(v) = serde_json::from_str::<Value>(&text) else {
        eprintln!("not JSON: {path}");
        return 2;
    };
    println!("replaying {} ({})", v["property"], v["summary"].as_str().unwrap_or("").chars().take(160).collect::<String>());
    let r1 = run_case(&v["case"]);
    let r2 = run_case(&v["case"]);
    match (r1, r2) {
        (Ok(a), Ok(b)) => {
            if a != b {
                eprintln!("MACHINERY-ERROR: two replays of the same case differ:\n  {}\n  {}", a.0, b.0);
                return 2;
            }
            println!("observation: {}", a.0);
            if a.1 {
                println!("VIOLATION-REPRODUCED property={} replay={path}", v["property"].as_str().unwrap_or("?"));
                1
            } else {
                println!("not reproduced on the current tree");
                0
            }
        }
        (Err(e), _) | (_, Err(e)) => {
            eprintln!("cannot replay: {e}");
            2
        }
    }
}
