//! `mc` — bounded-exhaustive checks of integritychain/fips204 against a spec-literal reference model.
//! usage: mc <C01..C18> --tier quick|thorough --evidence <path> [--profile-name checked|fast]
//!        mc replay <file>
//! exit: 0 property held on everything explored; 1 violation (VIOLATION line printed); 2 machinery error

mod alpha;
mod bind;
mod checks_a;
mod checks_b;
mod checks_c;
mod checks_d;
#[cfg(feature = "kernels")]
mod checks_e;
#[cfg(feature = "kernels")]
mod checks_k;
#[cfg(feature = "kernels")]
mod e8;
mod e1;
mod e3;
mod e7;
mod forge;
mod replay;
mod report;
mod rng;
mod subject;

use report::{Report, Tier};

pub struct Ctx {
    pub tier: Tier,
    pub seed: u64,
    pub profile: String,
}

fn main() {
    let args: Vec<String> = std::env::args().collect();
    if args.len() < 2 {
        eprintln!("usage: mc <ID> --tier quick|thorough --evidence <path> | mc replay <file>");
        std::process::exit(2);
    }
    subject::install_panic_hook();
    rayon::ThreadPoolBuilder::new().stack_size(64 << 20).build_global().expect("rayon pool");
    // run everything on a big-stack thread: key objects and matrices live on the stack
    let child = std::thread::Builder::new().stack_size(256 << 20).spawn(move || real_main(args)).expect("spawn");
    let code = child.join().unwrap_or(2);
    std::process::exit(code);
}

fn real_main(args: Vec<String>) -> i32 {
    #[cfg(feature = "kernels")]
    if args[1] == "raresearch" {
        return checks_e::raresearch(&args[2], args.get(3).and_then(|s| s.parse().ok()).unwrap_or(1 << 24));
    }
    #[cfg(feature = "kernels")]
    if args[1] == "e7gen" {
        return checks_e::e7gen();
    }
    if args[1] == "hugegen" {
        return checks_b::hugegen();
    }
    if args[1] == "kappa-witness" {
        return checks_d::kappa_witness(args.get(2).map(|s| s.as_str()).unwrap_or("kappa-overflow-2"));
    }
    if args[1] == "kappa-search" {
        return checks_d::kappa_search(args.get(2).and_then(|s| s.parse().ok()).unwrap_or(64));
    }
    if args[1] == "replay" {
        return replay::replay_file(&args[2]);
    }
    let id = args[1].to_uppercase();
    let mut tier = match std::env::var("VERIF_TIER").as_deref() {
        Ok("thorough") => Tier::Thorough,
        _ => Tier::Quick,
    };
    let mut evidence = format!("{}/evidence/{}.json", report::verif_root(), id);
    let mut profile = "checked".to_string();
    let mut i = 2;
    while i < args.len() {
        match args[i].as_str() {
            "--tier" => {
                tier = if args[i + 1] == "thorough" { Tier::Thorough } else { Tier::Quick };
                i += 1;
            }
            "--evidence" => {
                evidence = args[i + 1].clone();
                i += 1;
            }
            "--profile-name" => {
                profile = args[i + 1].clone();
                i += 1;
            }
            _ => {}
        }
        i += 1;
    }
    let seed: u64 = std::env::var("VERIF_SEED").ok().and_then(|s| s.parse().ok()).unwrap_or(0);
    let cx = Ctx { tier, seed, profile: profile.clone() };

    // the profile name must tell the truth about the build
    let checked_build = cfg!(debug_assertions);
    if (profile == "checked") != checked_build {
        eprintln!("MACHINERY-ERROR: profile name '{profile}' does not match the build (debug_assertions={checked_build})");
        return 2;
    }
    if let Err(e) = subject::selfcheck() {
        // not fatal: raw struct bytes are only used to rebuild objects; C16 reads every byte and would then also read padding
        eprintln!("note: {e}");
    }
    // bind the reference model to the standard (ACVP vectors) on every run
    let bound = match bind::bind_model() {
        Ok(n) => n,
        Err(e) => {
            eprintln!("MACHINERY-ERROR: {e}");
            return 2;
        }
    };
    let level = match id.as_str() {
        "C01" | "C02" | "C03" | "C08" | "C09" | "C11" => "model_checking",
        "C12" => "fault_enumeration",
        _ => "exploration",
    };
    let mut rep = Report::new(&id, tier, seed, level, &profile);
    rep.extra.insert("model_bound_to_acvp_vectors".into(), serde_json::json!(bound));
    rep.assumptions.push("sha2/sha3 crates are a trusted base shared by model and implementation".into());
    rep.assumptions.push(format!("reference model agreed with all {bound} ACVP keyGen/sigGen/sigVer vectors on this run"));
    match id.as_str() {
        "C01" => checks_a::c01(&cx, &mut rep),
        "C03" => checks_a::c03(&cx, &mut rep),
        "C04" => checks_a::c04(&cx, &mut rep),
        "C09" => checks_a::c09(&cx, &mut rep),
        "C10" => checks_a::c10(&cx, &mut rep),
        "C11" => checks_a::c11(&cx, &mut rep),
        "C02" => checks_b::c02(&cx, &mut rep),
        "C05" => checks_b::c05(&cx, &mut rep),
        "C06" => checks_b::c06(&cx, &mut rep),
        "C07" => checks_b::c07(&cx, &mut rep),
        #[cfg(feature = "kernels")]
        "C08" => checks_k::c08(&cx, &mut rep),
        "C12" => checks_c::c12(&cx, &mut rep),
        "C13" => checks_c::c13(&cx, &mut rep),
        #[cfg(feature = "kernels")]
        "C15" => checks_c::c15(&cx, &mut rep),
        "C16" => checks_c::c16(&cx, &mut rep),
        #[cfg(feature = "kernels")]
        "C18" => checks_c::c18(&cx, &mut rep),
        #[cfg(not(feature = "kernels"))]
        "C08" | "C15" | "C18" => {
            eprintln!("MACHINERY-ERROR: this build of the engines has no kernel hooks (fips204 does not build with verif-hooks); {id} cannot be decided");
            return 2;
        }
        _ => {
            eprintln!("unknown check {id}");
            return 2;
        }
    }
    rep.finish(&evidence)
}
