//! C12 (RNG faults, every drawn bit used) and C13 (no panics on hostile input).

use crate::alpha;
use crate::checks_a::set_field;
use crate::e3;
use crate::report::{fnv, Report, Tier, Violation};
use crate::rng::{Answer, ScriptRng, INFALLIBLE_MSG};
use crate::subject::{PkOps, SetApi, SkOps, APIS};
use crate::Ctx;
use rayon::prelude::*;
use refmodel::{hex, Mode, PkCtx, Poly, SkCtx, ALL_MODES, POLY0};
use serde_json::json;
use std::collections::BTreeSet;

// ------------------------------------------------------------------------------------------------ C12

#[derive(Clone, Copy, Debug, PartialEq, Eq)]
enum Op {
    Keygen,
    Sign(Mode),
    Dudect,
}
impl Op {
    fn requests(self) -> usize {
        match self {
            Op::Dudect => 2,
            _ => 1,
        }
    }
}

fn answer_kinds(tier: Tier) -> Vec<Answer> {
    let fill: Vec<u8> = (0..32u8).map(|i| i.wrapping_mul(37).wrapping_add(11)).collect();
    let mut v = vec![Answer::Ok(fill.clone()), Answer::ErrBefore, Answer::ErrAfter(16, fill.clone()), Answer::ErrAfter(32, fill.clone())];
    if tier == Tier::Thorough {
        v.push(Answer::ErrAfter(1, fill.clone()));
        v.push(Answer::ErrAfter(31, fill));
    }
    v
}

struct SeqOutcome {
    violations: Vec<(String, String)>,
    ops_run: usize,
    deviations: usize,
}

fn run_sequence(api: &'static SetApi, seq: &[Op], script: &[Answer], err_code: u32, fallback_sk: &dyn SkOps, fallback_skc: &SkCtx) -> SeqOutcome {
    let p = api.p;
    let mut rng = ScriptRng::new(script.to_vec());
    rng.err_code = err_code;
    let mut out = SeqOutcome { violations: Vec::new(), ops_run: 0, deviations: script.iter().filter(|a| !matches!(a, Answer::Ok(_))).count() };
    let mut cur_sk: Option<(Box<dyn SkOps>, SkCtx)> = None;
    let msg = b"c12-message";
    let ctx = b"c12";
    let mut expected_requests = 0usize;
    for (oi, op) in seq.iter().enumerate() {
        let first_req = rng.pos;
        if first_req + op.requests() > script.len() {
            // an earlier operation consumed more RNG answers than one per request (e.g. a silent retry): reported below
            break;
        }
        out.ops_run += 1;
        let ans = |k: usize| script.get(first_req + k).cloned();
        let bytes_of = |a: &Answer| -> Option<[u8; 32]> {
            if let Answer::Ok(b) = a {
                Some(core::array::from_fn(|i| b[i % b.len()]))
            } else {
                None
            }
        };
        let mut bad = |key: &str, what: String| out.violations.push((format!("{key}:{op:?}"), format!("op #{oi} {op:?}: {what}")));
        match op {
            Op::Keygen => {
                expected_requests += 1;
                let a = ans(0).unwrap();
                match (api.keygen_rng)(&mut rng) {
                    Err(pn) => bad(if pn.0.contains(INFALLIBLE_MSG) { "infallible-rng-interface-used" } else { "panic" }, format!("panicked: {}", pn.0)),
                    Ok(Ok((pk, sk))) => match bytes_of(&a) {
                        None => bad("fault-ignored", format!("returned a key pair although the RNG answered {a:?}")),
                        Some(xi) => {
                            let want = refmodel::keygen_internal(p, &xi);
                            if pk.to_bytes().ok().as_ref() != Some(&want.pk) || sk.to_bytes().ok().as_ref() != Some(&want.sk) {
                                bad("wrong-output", "keys differ from KeyGen_internal on the delivered bytes".into());
                            }
                            cur_sk = Some((sk, SkCtx::new(p, &want.sk)));
                        }
                    },
                    Ok(Err(_)) => {
                        if bytes_of(&a).is_some() {
                            bad("spurious-error", "returned Err although the RNG delivered 32 bytes".into());
                        }
                    }
                }
            }
            Op::Sign(mode) => {
                expected_requests += 1;
                let a = ans(0).unwrap();
                let (sk, skc): (&dyn SkOps, &SkCtx) = match &cur_sk {
                    Some((s, c)) => (s.as_ref(), c),
                    None => (fallback_sk, fallback_skc),
                };
                match sk.sign(*mode, &mut rng, msg, ctx) {
                    Err(pn) => bad(if pn.0.contains(INFALLIBLE_MSG) { "infallible-rng-interface-used" } else { "panic" }, format!("panicked: {}", pn.0)),
                    Ok(Ok(sig)) => match bytes_of(&a) {
                        None => bad("fault-ignored", format!("returned a signature although the RNG answered {a:?}")),
                        Some(rnd) => {
                            if Some(sig) != refmodel::sign(skc, *mode, msg, ctx, &rnd) {
                                bad("wrong-output", "signature differs from the reference for the delivered 32 bytes".into());
                            }
                        }
                    },
                    Ok(Err(_)) => {
                        if bytes_of(&a).is_some() {
                            bad("spurious-error", "returned Err although the RNG delivered 32 bytes".into());
                        }
                    }
                }
            }
            Op::Dudect => {
                let a0 = ans(0).unwrap();
                let a1 = ans(1).unwrap();
                let ok0 = bytes_of(&a0).is_some();
                expected_requests += if ok0 { 2 } else { 1 };
                if !ok0 {
                    // the second scripted answer is not consumed; keep script and rng aligned
                }
                let r = (api.dudect)(&mut rng, msg);
                if !ok0 {
                    rng.pos = first_req + 2;
                }
                match r {
                    Err(pn) => bad(if pn.0.contains(INFALLIBLE_MSG) { "infallible-rng-interface-used" } else { "panic" }, format!("panicked: {}", pn.0)),
                    Ok(Ok(_)) => {
                        if !(ok0 && bytes_of(&a1).is_some()) {
                            bad("fault-ignored", format!("returned a signature although the RNG answered {a0:?}, {a1:?}"));
                        }
                    }
                    Ok(Err(_)) => {
                        if ok0 && bytes_of(&a1).is_some() {
                            bad("spurious-error", "returned Err although the RNG delivered all bytes".into());
                        }
                    }
                }
            }
        }
    }
    if rng.log.len() != expected_requests || rng.log.iter().any(|&l| l != 32) {
        out.violations.push(("rng-request-pattern".into(), format!("RNG requests {:?}, expected {expected_requests} requests of 32 bytes", rng.log)));
    }
    out
}

pub fn c12(cx: &Ctx, rep: &mut Report) {
    rep.rule = "fault enumeration over the caller's RngCore: all operation sequences of length <= 3 over {keygen, sign, hash_sign x3, dudect_keygen_sign (2 requests)} that start with keygen x ALL answer scripts for the requests they make (answers: fill+Ok | Err before writing | Err after writing 1/16/31/32 bytes; the infallible methods are booby-trapped), ordered by number of deviations; oracle: Err iff the operation's request was answered with an error, no panic, Ok results equal the reference on the delivered bytes, one 32-byte request per operation; plus: base draw and its 256 single-bit flips give 257 pairwise distinct outputs equal to the reference, per entry point. Non-trivial = run with >= 1 deviation, or a bit-flip case. OS-RNG wrappers: strace sub-check (see os_rng in coverage).".into();
    let kinds = answer_kinds(cx.tier);
    let ops = [Op::Keygen, Op::Sign(Mode::Pure), Op::Sign(Mode::Sha256), Op::Sign(Mode::Sha512), Op::Sign(Mode::Shake128), Op::Dudect];
    let mut seqs: Vec<Vec<Op>> = vec![vec![Op::Keygen]];
    for a in ops {
        seqs.push(vec![Op::Keygen, a]);
        for b in ops {
            seqs.push(vec![Op::Keygen, a, b]);
        }
    }
    for api in APIS {
        let p = api.p;
        let fb = refmodel::keygen_internal(p, &alpha::counter32(cx.seed, "seed", 10));
        let fb_skc = SkCtx::new(p, &fb.sk);
        let Ok(Ok(fb_sk)) = (api.sk_from_bytes)(&fb.sk) else {
            rep.machinery("fallback key import failed".into());
            continue;
        };
        // all (sequence, script) pairs
        let mut jobs: Vec<(usize, Vec<Answer>)> = Vec::new();
        for (si, seq) in seqs.iter().enumerate() {
            let n: usize = seq.iter().map(|o| o.requests()).sum();
            let total = kinds.len().pow(n as u32);
            for c in 0..total {
                let mut cc = c;
                let mut script = Vec::with_capacity(n);
                for _ in 0..n {
                    script.push(kinds[cc % kinds.len()].clone());
                    cc /= kinds.len();
                }
                jobs.push((si, script));
            }
        }
        // deviation-bounded order: 0 deviations first
        jobs.sort_by_key(|(_, s): &(usize, Vec<Answer>)| s.iter().filter(|a| !matches!(a, Answer::Ok(_))).count());
        // every script that contains a failure is run once per error code of the alphabet (a retry-on-EINTR/EAGAIN slip only
        // shows for that code); fault-free scripts once
        let codes: [u32; 4] = [rand_core::Error::CUSTOM_START + 2, 4, 11, 5];
        let jobs: Vec<(usize, Vec<Answer>, u32)> = jobs
            .into_iter()
            .flat_map(|(si, script)| {
                let faulty = script.iter().any(|a| !matches!(a, Answer::Ok(_)));
                let n = if faulty { codes.len() } else { 1 };
                (0..n).map(move |c| (si, script.clone(), codes[c])).collect::<Vec<_>>()
            })
            .collect();
        let results: Vec<SeqOutcome> = jobs.par_iter().map(|(si, script, code)| run_sequence(api, &seqs[*si], script, *code, fb_sk.as_ref(), &fb_skc)).collect();
        let mut by_dev = [0u64; 8];
        for ((si, script, code), r) in jobs.iter().zip(results.iter()) {
            rep.count(&format!("mldsa{}:fault_runs", p.id), 1);
            by_dev[r.deviations.min(7)] += 1;
            if r.deviations > 0 {
                rep.nontrivial_by_construction(1);
            }
            rep.outcome("ops_executed", r.ops_run as u64);
            for (key, what) in &r.violations {
                rep.violate(Violation {
                    key: format!("c12:{key}"),
                    summary: format!("ML-DSA-{} sequence {:?} with RNG script {:?} (error code {code}): {what}", p.id, seqs[*si], script.iter().map(short).collect::<Vec<_>>()),
                    replay: json!({"engine":"faults","set":p.id,"sequence":seqs[*si].iter().map(|o| format!("{o:?}")).collect::<Vec<_>>(),"script":script.iter().map(short).collect::<Vec<_>>(),"error_code":code}),
                });
            }
        }
        rep.extra.insert(format!("runs_by_deviation_count_mldsa{}", p.id), json!(by_dev));
        rep.sample(json!({"set":p.id,"sequence":["Keygen","Sign(Sha512)","Dudect"],"script":["Ok","ErrAfter(16)","Ok","ErrBefore"],"expected":"keygen Ok; hash-sign Err; dudect Err after one successful request"}));

        // every drawn bit matters
        let base: [u8; 32] = alpha::counter32(cx.seed, "draw", 0);
        let draws: Vec<[u8; 32]> = std::iter::once(base)
            .chain((0..256).map(|b| {
                let mut d = base;
                d[b / 8] ^= 1 << (b % 8);
                d
            }))
            .collect();
        // keygen
        let outs: Vec<Option<Vec<u8>>> = draws
            .par_iter()
            .map(|d| {
                let mut rng = ScriptRng::ok(d);
                match (api.keygen_rng)(&mut rng) {
                    Ok(Ok((pk, sk))) => {
                        let want = refmodel::keygen_internal(p, d);
                        let got = [pk.to_bytes().ok()?, sk.to_bytes().ok()?].concat();
                        (got == [want.pk, want.sk].concat()).then_some(got)
                    }
                    _ => None,
                }
            })
            .collect();
        bits_verdict(rep, p.id, "keygen", &outs);
        for mode in [Mode::Pure, Mode::Sha256, Mode::Sha512, Mode::Shake128] {
            let outs: Vec<Option<Vec<u8>>> = draws
                .par_iter()
                .map(|d| {
                    let mut rng = ScriptRng::ok(d);
                    match fb_sk.sign(mode, &mut rng, b"bits", b"ctx") {
                        Ok(Ok(s)) => (Some(&s) == refmodel::sign(&fb_skc, mode, b"bits", b"ctx", d).as_ref()).then_some(s),
                        _ => None,
                    }
                })
                .collect();
            bits_verdict(rep, p.id, &format!("sign:{mode:?}"), &outs);
        }
        // a call that is refused for its arguments (context longer than 255 bytes: FIPS 204 Algorithms 2 and 4 return at
        // step 1, before rnd is drawn) must not consume randomness: nothing drawn could influence its result
        for mode in [Mode::Pure, Mode::Sha256, Mode::Sha512, Mode::Shake128] {
            for l in [256usize, 257, 1024] {
                rep.count("refused_call_draws_nothing", 1);
                rep.nontrivial_case(fnv(format!("refused{}{mode:?}{l}", p.id).as_bytes()));
                let mut rng = ScriptRng::new(vec![Answer::Ok(vec![0x77]); 4]);
                let r = fb_sk.sign(mode, &mut rng, b"refused", &alpha::ctx(l));
                if !rng.log.is_empty() || !matches!(r, Ok(Err(_))) {
                    rep.violate(Violation {
                        key: format!("c12:refused-call-draws:{mode:?}"),
                        summary: format!("ML-DSA-{} mode {mode:?}: signing with a {l}-byte context made RNG requests {:?} (result {:?}); a refused call must not draw randomness, no drawn byte can influence its result", p.id, rng.log, r.map(|x| x.map(|_| "a signature")).map_err(|e| e.0)),
                        replay: json!({"engine":"faults","set":p.id,"what":"refused-call","mode":format!("{mode:?}"),"ctx_len":l}),
                    });
                }
            }
        }
    }
}
fn short(a: &Answer) -> String {
    match a {
        Answer::Ok(_) => "Ok".into(),
        Answer::ErrBefore => "ErrBefore".into(),
        Answer::ErrAfter(n, _) => format!("ErrAfter({n})"),
    }
}
fn bits_verdict(rep: &mut Report, set: u32, what: &str, outs: &[Option<Vec<u8>>]) {
    rep.count(&format!("draw_bits:{what}"), outs.len() as u64);
    rep.nontrivial_by_construction(outs.len() as u64 - 1);
    let bad = outs.iter().filter(|o| o.is_none()).count();
    let distinct: BTreeSet<&Vec<u8>> = outs.iter().flatten().collect();
    rep.outcome("distinct_outputs_over_bit_flips", distinct.len() as u64);
    if bad > 0 {
        rep.violate(Violation { key: format!("c12:draw:{what}:differs-from-reference"), summary: format!("ML-DSA-{set} {what}: {bad} of 257 draws give an output that is not the reference's for the drawn 32 bytes"), replay: json!({"engine":"faults","set":set,"what":what}) });
    } else if distinct.len() != outs.len() {
        rep.violate(Violation { key: format!("c12:draw:{what}:bit-ignored"), summary: format!("ML-DSA-{set} {what}: only {} distinct outputs for 257 draws differing in one bit each: part of the draw does not influence the result", distinct.len()), replay: json!({"engine":"faults","set":set,"what":what}) });
    }
}

// ------------------------------------------------------------------------------------------------ C13

fn sig_shapes(p: &'static refmodel::Params, pkc0: &PkCtx, tier: Tier) -> Vec<(String, Vec<u8>)> {
    let mut out: Vec<(String, Vec<u8>)> = Vec::new();
    out.push(("all-00".into(), vec![0u8; p.sig_len]));
    out.push(("all-ff".into(), vec![0xFFu8; p.sig_len]));
    out.push(("counter".into(), (0..p.sig_len).map(|i| i as u8).collect()));
    out.push(("shake".into(), refmodel::shake256(&[b"c13"], p.sig_len)));
    // raw z-field patterns x hint strings x c_tilde patterns
    let hs: Vec<e3::HintStr> = e3::structured_strings(p.k, p.omega, tier.pick(1, 2)).into_iter().step_by(tier.pick(2, 3)).chain(e3::heavy_strings(p.k, p.omega)).collect();
    let zlen = p.hint_off() - p.ctilde_len();
    let zpats: Vec<(&str, Vec<u8>)> = vec![("z=gamma1(all-00)", vec![0u8; zlen]), ("z=-gamma1+1(all-ff)", vec![0xFF; zlen]), ("z-counter", (0..zlen).map(|i| (i * 13 + 5) as u8).collect())];
    for (i, h) in hs.iter().enumerate() {
        let (zn, z) = &zpats[i % zpats.len()];
        let c = if i % 2 == 0 { 0u8 } else { 0xFF };
        let mut s = vec![c; p.ctilde_len()];
        s.extend_from_slice(z);
        s.extend_from_slice(&h.y);
        out.push((format!("{zn}|hint:{}", h.class), s));
    }
    // commitment hashes with the longest SampleInBall rejection runs (committed search results), well-formed z and hints
    for c in crate::forge::sib_long_cases(p, pkc0, &std::sync::Arc::new(pkc0.pk.clone())).0 {
        out.push((c.class.clone(), c.sig));
    }
    // forged, FIPS-204-valid signatures under the zero-t1 key with extremal response vectors
    let g = (p.gamma1 - p.beta - 1) as i32;
    let alt: Poly = core::array::from_fn(|i| if i % 2 == 0 { g } else { -g });
    let blk: Poly = core::array::from_fn(|i| if (i / 16) % 2 == 0 { g } else { -g });
    for (nm, poly) in [("+max", [g; 256]), ("-max", [-g; 256]), ("alternating", alt), ("blocks16", blk)] {
        let z = vec![poly; p.l];
        let mp = refmodel::format_message(Mode::Pure, b"", b"").unwrap();
        out.push((format!("valid-forged:z={nm}"), refmodel::forge_zero_t1(pkc0, &mp, &z, &vec![POLY0; p.k], &vec![0u8; p.omega + p.k])));
    }
    out
}

fn report_panic(rep: &mut Report, set: u32, what: &str, pn: &crate::subject::Panic, replay: serde_json::Value) {
    let site = pn.0.split('@').next_back().unwrap_or("").trim().to_string();
    rep.outcome("panic", 1);
    rep.violate(Violation { key: format!("c13:panic:{site}"), summary: format!("ML-DSA-{set}: {what} panicked: {}", pn.0), replay });
}

fn exercise_sk(api: &'static SetApi, rep: &mut Report, name: &str, skb: &[u8]) {
    let p = api.p;
    let replay = |op: &str| json!({"engine":"api","set":p.id,"ops":[{"op":"sk_exercise","sk":hex(skb),"call":op}]});
    rep.count("sk:try_from_bytes", 1);
    rep.nontrivial_case(fnv(skb));
    let sk = match (api.sk_from_bytes)(skb) {
        Err(pn) => return report_panic(rep, p.id, &format!("PrivateKey::try_from_bytes on shape '{name}'"), &pn, replay("try_from_bytes")),
        Ok(Err(_)) => {
            rep.outcome("sk_rejected", 1);
            return;
        }
        Ok(Ok(k)) => k,
    };
    rep.outcome("sk_accepted", 1);
    rep.count("sk:into_bytes+clone+derive", 3);
    if let Err(pn) = sk.to_bytes() {
        report_panic(rep, p.id, &format!("PrivateKey::into_bytes on accepted key shape '{name}'"), &pn, replay("into_bytes"));
    }
    if let Err(pn) = sk.clone_box() {
        report_panic(rep, p.id, &format!("PrivateKey::clone on '{name}'"), &pn, replay("clone"));
    }
    let dpk = match sk.derive_pk() {
        Err(pn) => {
            report_panic(rep, p.id, &format!("get_public_key on accepted key shape '{name}'"), &pn, replay("get_public_key"));
            None
        }
        Ok(k) => Some(k),
    };
    for mode in ALL_MODES {
        rep.count("sk:sign", 1);
        let mut rng = ScriptRng::ok(&[7u8; 32]);
        match sk.sign(mode, &mut rng, b"hostile-key", b"c") {
            Err(pn) => report_panic(rep, p.id, &format!("signing ({mode:?}) with accepted key shape '{name}'"), &pn, replay("sign")),
            Ok(Ok(sig)) => {
                if let Some(k) = &dpk {
                    rep.count("pk:verify(derived)", 1);
                    if let Err(pn) = k.verify(mode, b"hostile-key", &sig, b"c") {
                        report_panic(rep, p.id, &format!("verify under the key derived from shape '{name}'"), &pn, replay("derive+verify"));
                    }
                }
            }
            Ok(Err(_)) => {}
        }
    }
    if let Some(k) = &dpk {
        if let Err(pn) = k.to_bytes() {
            report_panic(rep, p.id, &format!("PublicKey::into_bytes on the key derived from shape '{name}'"), &pn, replay("derive+into_bytes"));
        }
    }
}

pub fn c13(cx: &Ctx, rep: &mut Report) {
    rep.rule = "checked build (debug-assertions + overflow-checks), every call under catch_unwind: product of public entry points {PublicKey: try_from_bytes, into_bytes, clone, verify, hash_verify x3, _internal_verify; PrivateKey: try_from_bytes, into_bytes, clone, get_public_key, try_sign_with_rng, try_hash_sign_with_rng x3, _internal_sign; keygen x2} with hostile shapes: extremal / one-hot public keys, private keys that are accepted but were never generated (extremal s, t0 at both range ends, inconsistent t0/tr/rho/K, every out-of-range s-field value), signature shapes = raw z patterns x E3 hint strings x c_tilde patterns + FIPS-204-valid forged signatures with extremal response vectors + the sparse-coset overflow witnesses, message lengths up to 2^20 and context lengths up to 65536. Oracle: no unwind. Every case is hostile (non-trivial) by construction.".into();
    if !cfg!(debug_assertions) {
        rep.assumptions.push("this run is the release-semantics repetition: panics that do not depend on debug assertions / overflow checks, and termination of every call".into());
    }
    for api in APIS {
        let p = api.p;
        let base = refmodel::keygen_internal(p, &alpha::counter32(cx.seed, "seed", 11));
        // ---------------- private keys
        let mut sks: Vec<(String, Vec<u8>)> = alpha::sk_shapes(p, &base);
        // accepted-but-never-generated: inconsistent fields
        for (nm, off) in [("rho-bit", 0usize), ("K-bit", 40), ("tr-bit", 70), ("t0-first-byte", p.sk_len - 32 * 13 * p.k), ("t0-last-byte", p.sk_len - 1)] {
            let mut b = base.sk.clone();
            b[off] ^= 0x10;
            sks.push((format!("inconsistent:{nm}"), b));
        }
        let mut b = base.sk.clone();
        for x in b[p.sk_len - 32 * 13 * p.k..].iter_mut() {
            *x = !*x;
        }
        sks.push(("inconsistent:t0-complemented".into(), b));
        // every out-of-range s-field value at three positions of the first and last s polynomials
        let eb = p.eta_bits();
        for poly in [0, p.l + p.k - 1] {
            for pos in [0usize, 128, 255] {
                for v in (2 * p.eta as u32 + 1)..(1u32 << eb) {
                    let mut b = base.sk.clone();
                    set_field(&mut b, 128 * 8 + (poly * 256 + pos) * eb, eb, v);
                    sks.push((format!("out-of-range-s:poly{poly}:pos{pos}:val{v}"), b));
                }
            }
        }
        // honestly generated keys for the model-selected seeds whose t = A s1 + s2 wraps around q
        for (n, xi) in crate::checks_a::rare_keygen_seeds(p, cx.seed, crate::checks_a::rare_cap(cx.tier)) {
            sks.push((format!("generated:model-selected:{n}"), refmodel::keygen_internal(p, &xi).sk));
        }
        // E8: t0 / t1 / z polynomials that drive one output of the subject's forward transform to its largest integer value
        // (a panic met during the search is not reported as such: the offending polynomial is put into a key / signature
        // and goes through the public API like every other shape)
        #[cfg(feature = "kernels")]
        let growth: Vec<(String, i64, Poly)> = match crate::checks_e::growth_witnesses(p, cx.tier) {
            Ok(g) => g.into_iter().map(|g| (g.class, g.sign, g.coeffs)).collect(),
            Err(gp) => vec![(gp.class, 0, gp.coeffs)],
        };
        #[cfg(not(feature = "kernels"))]
        let growth: Vec<(String, i64, Poly)> = Vec::new();
        if growth.is_empty() {
            rep.assumptions.push("forward-growth (E8) key and signature shapes not generated in this run (hooks unavailable or search stopped)".into());
        }
        for (class, sign, coeffs) in growth.iter().filter(|g| g.0 == "t0") {
            for row in [0, p.k - 1] {
                let mut t0 = base.t0.clone();
                t0[row] = *coeffs;
                sks.push((format!("forward-growth:{class}:sign{sign}:row{row}"), refmodel::sk_encode(p, &base.rho, &base.key, &base.tr, &base.s1, &base.s2, &t0)));
            }
        }
        sks.push(("all-00".into(), vec![0u8; p.sk_len]));
        sks.push(("all-ff".into(), vec![0xFFu8; p.sk_len]));
        sks.push(("shake".into(), refmodel::shake256(&[b"c13-sk"], p.sk_len)));
        for (name, skb) in &sks {
            exercise_sk(api, rep, name, skb);
        }
        // ---------------- public keys x signatures x messages x contexts
        let pk0b = refmodel::zero_t1_pk(p, &[0x42u8; 32]);
        let pkc0 = PkCtx::new(p, &pk0b);
        let mut pks = alpha::pk_shapes(p, &base);
        pks.push(("shake".into(), refmodel::shake256(&[b"c13-pk"], p.pk_len)));
        for poly in [0, p.k - 1] {
            let mut b = vec![0u8; p.pk_len];
            set_field(&mut b, 32 * 8 + (poly * 256 + 255) * 10, 10, 1023);
            pks.push((format!("one-hot:t1[{poly}][255]=1023"), b));
        }
        for (class, sign, coeffs) in growth.iter().filter(|g| g.0 == "t1") {
            for row in [0, p.k - 1] {
                let mut t1 = base.t1.clone();
                t1[row] = *coeffs;
                pks.push((format!("forward-growth:{class}:sign{sign}:row{row}"), refmodel::pk_encode(p, &base.rho, &t1)));
            }
        }
        let mut sigs = sig_shapes(p, &pkc0, cx.tier);
        for (class, sign, coeffs) in growth.iter().filter(|g| g.0 == "z") {
            for row in [0, p.l - 1] {
                let mut z = vec![POLY0; p.l];
                z[row] = *coeffs;
                let mp = refmodel::format_message(Mode::Pure, b"", b"").unwrap();
                sigs.push((format!("forward-growth:{class}:sign{sign}:row{row}"), refmodel::forge_zero_t1(&pkc0, &mp, &z, &vec![POLY0; p.k], &vec![0u8; p.omega + p.k])));
            }
        }
        let msgs: Vec<Vec<u8>> = [0usize, 1, 136, 4096].iter().map(|&l| alpha::msg(l, 2)).collect();
        let ctxs: Vec<Vec<u8>> = [0usize, 255, 256].iter().map(|&l| alpha::ctx(l)).collect();
        for (pname, pkb) in &pks {
            let replay_pk = json!({"engine":"api","set":p.id,"ops":[{"op":"pk_roundtrip","pk":hex(pkb)}]});
            rep.count("pk:try_from_bytes", 1);
            let pk = match (api.pk_from_bytes)(pkb) {
                Err(pn) => {
                    report_panic(rep, p.id, &format!("PublicKey::try_from_bytes on shape '{pname}'"), &pn, replay_pk);
                    continue;
                }
                Ok(Err(_)) => continue,
                Ok(Ok(k)) => k,
            };
            rep.count("pk:into_bytes+clone", 2);
            if let Err(pn) = pk.to_bytes() {
                report_panic(rep, p.id, &format!("PublicKey::into_bytes on shape '{pname}'"), &pn, replay_pk.clone());
            }
            if let Err(pn) = pk.clone_box() {
                report_panic(rep, p.id, &format!("PublicKey::clone on shape '{pname}'"), &pn, replay_pk.clone());
            }
            let cases: Vec<(usize, usize, usize, Mode)> = sigs
                .iter()
                .enumerate()
                .flat_map(|(si, _)| ALL_MODES.iter().enumerate().map(move |(mi, m)| (si, (si + mi) % 4, (si + 2 * mi) % 3, *m)))
                .collect();
            let panics: Vec<(usize, usize, usize, Mode, crate::subject::Panic)> = cases
                .par_iter()
                .filter_map(|&(si, gi, ci, mode)| pk.verify(mode, &msgs[gi], &sigs[si].1, &ctxs[ci]).err().map(|pn| (si, gi, ci, mode, pn)))
                .collect();
            rep.count("pk:verify", cases.len() as u64);
            rep.nontrivial_by_construction(cases.len() as u64);
            for (si, gi, ci, mode, pn) in panics {
                let c = crate::forge::VCase { class: format!("c13:{}", sigs[si].0), pk: std::sync::Arc::new(pkb.clone()), mode, msg: msgs[gi].clone(), ctx: ctxs[ci].clone(), sig: sigs[si].1.clone(), intent: None };
                report_panic(rep, p.id, &format!("verify ({mode:?}) with pk shape '{pname}', signature shape '{}'", sigs[si].0), &pn, c.replay(p.id, false));
            }
            // very long message / context once per key
            rep.count("pk:verify(long inputs)", 4);
            let big = vec![0xA5u8; 1 << 20];
            let bigctx = vec![1u8; 65_536];
            for (m, c, mode) in [(&big, &ctxs[0], Mode::Pure), (&big, &ctxs[1], Mode::Sha512), (&msgs[1], &bigctx, Mode::Pure), (&msgs[1], &bigctx, Mode::Shake128)] {
                if let Err(pn) = pk.verify(mode, m, &sigs[3].1, c) {
                    report_panic(rep, p.id, &format!("verify with |M|={} |ctx|={}", m.len(), c.len()), &pn, json!({"engine":"api","set":p.id,"ops":[]}));
                }
            }
        }
        // the sparse-coset inverse-NTT overflow witnesses (DESIGN 3.2), if committed for this set
        for (wname, case) in crate::e7::load_witnesses(p) {
            rep.count("pk:verify(sparse-coset witness)", 1);
            rep.nontrivial_case(fnv(&case.sig));
            if let Ok(Ok(pk)) = (api.pk_from_bytes)(&case.pk) {
                if let Err(pn) = pk.verify(case.mode, &case.msg, &case.sig, &case.ctx) {
                    report_panic(rep, p.id, &format!("verify on the sparse-coset witness {wname}"), &pn, case.replay(p.id, true));
                }
            }
        }
        // slot-maximisation family: one inverse-transform input coefficient inside verify() pushed to (l+1)*q/2 and beyond
        let mut peak = 0i64;
        for (case, total) in crate::e7::slot_max_cases(p, cx.tier == Tier::Thorough) {
            rep.count("pk:verify(slot-max family)", 1);
            rep.nontrivial_case(fnv(&case.sig));
            peak = peak.max(total.abs());
            if let Ok(Ok(pk)) = (api.pk_from_bytes)(&case.pk) {
                if let Err(pn) = pk.verify(case.mode, &case.msg, &case.sig, &case.ctx) {
                    report_panic(rep, p.id, &format!("verify on {} (inverse-transform input coefficient {:.3} q)", case.class, total as f64 / refmodel::Q as f64), &pn, case.replay(p.id, false));
                }
            }
        }
        rep.extra.insert(format!("largest_verify_inv_ntt_input_over_q_mldsa{}", p.id), json!(peak as f64 / refmodel::Q as f64));
        // accepted-but-hostile private key that drives the rejection loop itself: every t0 coefficient at maximal magnitude with
        // pseudo-random signs makes the hint weight exceed omega on almost every attempt (median ~3000 attempts for ML-DSA-44).
        // The committed witness message needs more than 65536/l attempts with the reference signer, i.e. the 16-bit ExpandMask
        // counter is exhausted. The call must still return (a signature or an error), without panic, in bounded time.
        if p.id == 44 {
            let hb = refmodel::keygen_internal(p, &[0x21u8; 32]);
            let skb = hostile_t0_key(p, &hb);
            if let Ok(Ok(sk)) = (api.sk_from_bytes)(&skb) {
                for (m, what) in [("kappa-overflow-2", "counter exhausted (reference needs > 16384 attempts)"), ("kappa-overflow-0", "long loop"), ("kappa-overflow-1", "long loop")] {
                    rep.count("sk:sign(rejection-loop exhaustion)", 1);
                    rep.nontrivial_case(fnv(m.as_bytes()));
                    let mut rng = ScriptRng::ok(&[0u8; 32]);
                    let t = std::time::Instant::now();
                    let r = sk.sign(Mode::Pure, &mut rng, m.as_bytes(), b"");
                    rep.outcome(match &r { Ok(Ok(_)) => "hostile_key_sign_ok", Ok(Err(_)) => "hostile_key_sign_err", Err(_) => "hostile_key_sign_panic" }, 1);
                    if let Err(pn) = r {
                        report_panic(rep, p.id, &format!("signing '{m}' with the accepted hostile-t0 key ({what}, {:.1}s)", t.elapsed().as_secs_f64()), &pn,
                            json!({"engine":"api","set":p.id,"ops":[{"op":"sk_exercise","sk":hex(&skb),"call":"sign","msg":m}]}));
                    }
                }
            }
        }
        // the constant-time test entry point (feature `dudect`) is a public call too: key generation + signing with the
        // rejection tests neutralised, for a counter family of RNG answers
        for i in 0..cx.tier.pick(96u64, 1024) {
            rep.count("dudect_keygen_sign_with_rng", 1);
            let d = alpha::counter32(cx.seed, "c13-dudect", i);
            let mut rng = ScriptRng::oks(&[&d, &d]);
            if let Err(pn) = (api.dudect)(&mut rng, b"m") {
                let what = pn.0.split('@').next().unwrap_or("").trim();
                let slug: String = what.chars().map(|c| if c.is_ascii_alphanumeric() { c } else { '-' }).collect();
                rep.outcome("panic", 1);
                rep.violate(Violation {
                    key: format!("c13:dudect-panic:{slug}"),
                    summary: format!("ML-DSA-{}: dudect_keygen_sign_with_rng (constant-time test mode) panicked for RNG answer {}: {}", p.id, hex(&d), pn.0),
                    replay: json!({"engine":"api","set":p.id,"ops":[{"op":"dudect","rng":hex(&d),"msg":"6d"}]}),
                });
            }
        }
        // signing with long messages / every context length class through an honest key
        if let Ok(Ok(sk)) = (api.sk_from_bytes)(&base.sk) {
            for (m, c, mode) in [(vec![0u8; 1 << 20], vec![], Mode::Pure), (vec![0u8; 1 << 20], alpha::ctx(255), Mode::Sha256), (vec![], vec![0u8; 65_536], Mode::Pure), (vec![], alpha::ctx(256), Mode::Shake128)] {
                rep.count("sk:sign(long inputs)", 1);
                let mut rng = ScriptRng::ok(&[1u8; 32]);
                if let Err(pn) = sk.sign(mode, &mut rng, &m, &c) {
                    report_panic(rep, p.id, &format!("signing with |M|={} |ctx|={}", m.len(), c.len()), &pn, json!({"engine":"api","set":p.id,"ops":[]}));
                }
            }
        }
        rep.sample(json!({"set":p.id,"private_key_shapes":sks.len(),"public_key_shapes":pks.len(),"signature_shapes":sigs.len(),
            "examples":[sks[3].0, sks[10].0, sigs[5].0, sigs[sigs.len()-1].0]}));
    }
    if rep.outcomes.get("sk_accepted").copied().unwrap_or(0) == 0 {
        rep.machinery("no hostile private key was accepted: the accepted-key half of the property was not exercised".into());
    }
}

#[allow(dead_code)]
fn unused(_: &dyn PkOps) {}


/// the accepted ML-DSA-44 private key whose every t0 coefficient has maximal magnitude with pseudo-random signs
pub fn hostile_t0_key(p: &'static refmodel::Params, base: &refmodel::KeyGenOut) -> Vec<u8> {
    let bits = refmodel::shake256(&[b"hostile-t0-signs"], p.k * 32);
    let t0: Vec<Poly> = (0..p.k).map(|k| core::array::from_fn(|n| if (bits[k * 32 + n / 8] >> (n % 8)) & 1 == 1 { 4096 } else { -4095 })).collect();
    refmodel::sk_encode(p, &base.rho, &base.key, &base.tr, &base.s1, &base.s2, &t0)
}

/// diagnostic: how many rejection-loop iterations does the reference need with the hostile-t0 key?
pub fn kappa_search(n: usize) -> i32 {
    let p = &refmodel::P44;
    let base = refmodel::keygen_internal(p, &[0x21u8; 32]);
    let skb = hostile_t0_key(p, &base);
    let skc = SkCtx::new(p, &skb);
    let res: Vec<(usize, usize)> = (0..n)
        .into_par_iter()
        .map(|i| {
            let m = format!("kappa-overflow-{i}").into_bytes();
            let mp = refmodel::format_message(Mode::Pure, &m, b"").unwrap();
            (i, refmodel::sign_internal_ctx(&skc, &mp, &[0u8; 32], &refmodel::SignOpts { max_iters: 17000, ..Default::default() }).1.iterations)
        })
        .collect();
    let mut its: Vec<usize> = res.iter().map(|r| r.1).collect();
    its.sort_unstable();
    println!("iterations: min {} median {} max {}", its[0], its[its.len() / 2], its[its.len() - 1]);
    for (i, it) in res.iter().filter(|r| r.1 >= 16384) {
        println!("message kappa-overflow-{i}: >= {it} iterations (kappa would pass 65535)");
    }
    let mut near: Vec<(usize, usize)> = res.iter().filter(|r| r.1 < 16384).map(|r| (r.1, r.0)).collect();
    near.sort_unstable_by(|a, b| b.cmp(a));
    for (it, i) in near.iter().take(5) {
        println!("message kappa-overflow-{i}: {it} iterations (closest to exhaustion from below)");
    }
    0
}

pub fn kappa_witness(msg: &str) -> i32 {
    let p = &refmodel::P44;
    let base = refmodel::keygen_internal(p, &[0x21u8; 32]);
    let skb = hostile_t0_key(p, &base);
    let api = crate::subject::api(44);
    let Ok(Ok(sk)) = (api.sk_from_bytes)(&skb) else {
        println!("key rejected");
        return 2;
    };
    let t = std::time::Instant::now();
    let mut rng = ScriptRng::ok(&[0u8; 32]);
    let r = sk.sign(Mode::Pure, &mut rng, msg.as_bytes(), b"");
    println!("subject sign on '{msg}': {:?} after {:.1}s", r.map(|x| x.map(|s| format!("signature {}..", &hex(&s)[..16]))), t.elapsed().as_secs_f64());
    0
}
