#![allow(dead_code, unused_imports)]
//! E7 advsearch: bounded exhaustive search inside the sparse-coset family (DESIGN 3.2).
//!
//! Family: every z_j is supported on the exponents that are multiples of 256/m. The library's forward
//! transform then yields an NTT vector constant on m contiguous blocks, with block values v = V a (mod q)
//! for a fixed invertible m x m matrix V. The sum of all 256 coefficients of row k of A z — what
//! coefficient 0 of the inverse transform accumulates — separates into per-(polynomial, block) terms
//! F_{k,j,b}(v). Search: evaluate F on ALL q residues per (j, b), keep the top T, enumerate all T^m
//! combinations per polynomial by meet-in-the-middle, keep those whose preimage a = V^-1 v has every
//! coordinate inside (-(gamma1-beta), gamma1-beta), take the best. The arithmetic used to *guide* the
//! search is a transcription of Montgomery reduction; the *verdict* comes from evaluating the selected
//! z with the real ntt / mat_vec_mul / inv_ntt (hooks) and the real verify().

use crate::forge::VCase;
use crate::subject::guard;
#[cfg(feature = "kernels")]
use fips204::verif_hooks as hk;
use rayon::prelude::*;
use refmodel::{hex, mod_q, unhex, Mode, Params, PkCtx, Poly, POLY0, Q};
use serde_json::{json, Value};
use std::sync::Arc;

const QINV: i32 = 58_728_449;
fn mont(a: i64) -> i64 {
    let t = (a as i32).wrapping_mul(QINV);
    (a - i64::from(t).wrapping_mul(Q)) >> 32
}
fn to_mont_scalar(v: i64) -> i64 {
    // value congruent to v * 2^32 in (-q, q); the guide does not need the library's exact representative
    let r = ((i128::from(v) << 32) % i128::from(Q)) as i64;
    if r > Q / 2 {
        r - Q
    } else {
        r
    }
}

fn inv_mod(a: i64) -> i64 { refmodel::pow_mod(a, (Q - 2) as u64) }

/// V (m x m): block values of the library's forward transform for unit inputs; and its inverse mod q
#[cfg(feature = "kernels")]
fn block_matrix(m: usize) -> (Vec<Vec<i64>>, Vec<Vec<i64>>) {
    let step = 256 / m;
    let mut v = vec![vec![0i64; m]; m];
    for i in 0..m {
        let mut w = POLY0;
        w[i * step] = 1;
        let out = hk::ntt(&[w]);
        for b in 0..m {
            // constant on the block: assert it
            let val = mod_q(i64::from(out[0][b * step]));
            for n in 0..step {
                assert_eq!(mod_q(i64::from(out[0][b * step + n])), val, "sparse-coset structure: NTT not constant on block");
            }
            v[b][i] = val;
        }
    }
    // inverse by Gauss-Jordan mod q
    let mut a: Vec<Vec<i64>> = v.iter().enumerate().map(|(r, row)| row.iter().cloned().chain((0..m).map(|c| i64::from(c == r))).collect()).collect();
    for col in 0..m {
        let piv = (col..m).find(|&r| a[r][col] != 0).expect("V invertible");
        a.swap(col, piv);
        let inv = inv_mod(a[col][col]);
        for x in a[col].iter_mut() {
            *x = *x * inv % Q;
        }
        for r in 0..m {
            if r != col && a[r][col] != 0 {
                let f = a[r][col];
                for c in 0..2 * m {
                    a[r][c] = mod_q(a[r][c] - f * a[col][c]);
                }
            }
        }
    }
    let w = a.iter().map(|row| row[m..].to_vec()).collect();
    (v, w)
}

#[derive(Clone, Debug)]
pub struct Eval {
    /// plain sums of the 256 coefficients of each row of mat_vec_mul(A, ntt(z)), as the library computes them
    pub row_sums: Vec<i64>,
    pub max_abs_sum_over_q: f64,
    pub panic: Option<String>,
    pub matches_reference: bool,
}

/// exact evaluation with the real kernels
#[cfg(feature = "kernels")]
pub fn evaluate<const K: usize, const L: usize>(p: &'static Params, rho: &[u8; 32], z: &[Poly]) -> Eval {
    let a_ref = refmodel::expand_a(p, rho);
    let a: [[Poly; L]; K] = core::array::from_fn(|k| core::array::from_fn(|j| a_ref[k][j]));
    let za: [Poly; L] = core::array::from_fn(|j| z[j]);
    let mut ev = Eval { row_sums: vec![], max_abs_sum_over_q: 0.0, panic: None, matches_reference: false };
    let az_hat = match guard(|| hk::mat_vec_mul::<K, L>(&a, &hk::ntt(&za))) {
        Ok(v) => v,
        Err(pn) => {
            ev.panic = Some(format!("ntt/mat_vec_mul: {}", pn.0));
            return ev;
        }
    };
    ev.row_sums = az_hat.iter().map(|r| r.iter().map(|&c| i64::from(c)).sum()).collect();
    ev.max_abs_sum_over_q = ev.row_sums.iter().map(|s| s.abs() as f64 / Q as f64).fold(0.0, f64::max);
    match guard(|| hk::inv_ntt(&az_hat)) {
        Err(pn) => ev.panic = Some(format!("inv_ntt: {}", pn.0)),
        Ok(w) => {
            let pkc = PkCtx::new(p, &refmodel::zero_t1_pk(p, rho));
            let want = refmodel::az_of(&pkc, z);
            ev.matches_reference = (0..K).all(|k| (0..256).all(|n| mod_q(i64::from(w[k][n])) == i64::from(want[k][n])));
        }
    }
    ev
}
#[cfg(feature = "kernels")]
pub fn evaluate_dyn(p: &'static Params, rho: &[u8; 32], z: &[Poly]) -> Eval {
    match p.id {
        44 => evaluate::<4, 4>(p, rho, z),
        65 => evaluate::<6, 5>(p, rho, z),
        _ => evaluate::<8, 7>(p, rho, z),
    }
}

pub struct SearchResult {
    pub z: Option<Vec<Poly>>,
    pub predicted_sum_over_q: f64,
    pub admissible_per_poly: Vec<usize>,
    pub residues_evaluated: u64,
    pub combinations_enumerated: u64,
}

/// bounded exhaustive search for (row, sign) in the family with m blocks and top-T lists
#[cfg(feature = "kernels")]
pub fn search(p: &'static Params, rho: &[u8; 32], row: usize, sign: i64, m: usize, t: usize) -> SearchResult {
    let step = 256 / m;
    let (_v, w) = block_matrix(m);
    let a_hat = refmodel::expand_a(p, rho);
    let g = p.gamma1 - p.beta; // |a_i| < g
    let mut z = vec![POLY0; p.l];
    let mut total = 0i64;
    let mut adm = Vec::new();
    let mut residues = 0u64;
    let mut combos = 0u64;
    let mut all_found = true;
    for j in 0..p.l {
        // top-T residues per block, over ALL q residues
        let tops: Vec<Vec<(i64, i64)>> = (0..m)
            .map(|b| {
                let coeffs: Vec<i64> = (0..step).map(|n| i64::from(a_hat[row][j][b * step + n])).collect();
                let nchunk = 64;
                let per = (Q as usize).div_ceil(nchunk);
                let mut best: Vec<(i64, i64)> = (0..nchunk)
                    .into_par_iter()
                    .flat_map_iter(|c| {
                        let lo = (c * per) as i64;
                        let hi = (((c + 1) * per) as i64).min(Q);
                        let mut local: Vec<(i64, i64)> = Vec::with_capacity(t + 1);
                        for v in lo..hi {
                            let vm = to_mont_scalar(v);
                            let f: i64 = coeffs.iter().map(|&a| mont(a * vm)).sum::<i64>() * sign;
                            if local.len() < t || f > local[local.len() - 1].0 {
                                local.push((f, v));
                                local.sort_unstable_by(|x, y| y.0.cmp(&x.0));
                                local.truncate(t);
                            }
                        }
                        local
                    })
                    .collect();
                best.sort_unstable_by(|x, y| y.0.cmp(&x.0));
                best.truncate(t);
                best
            })
            .collect();
        residues += (m as u64) * Q as u64;
        // meet in the middle over the two halves of the blocks
        let half = m / 2;
        let enumerate_half = |blocks: std::ops::Range<usize>| -> Vec<(i64, Vec<i64>, Vec<usize>)> {
            let nb = blocks.len();
            let count = t.pow(nb as u32);
            (0..count)
                .map(|c| {
                    let mut cc = c;
                    let mut f = 0i64;
                    let mut vec = vec![0i64; m];
                    let mut pick = Vec::with_capacity(nb);
                    for b in blocks.clone() {
                        let (fb, vb) = tops[b][cc % t];
                        pick.push(cc % t);
                        cc /= t;
                        f += fb;
                        for (i, x) in vec.iter_mut().enumerate() {
                            *x = (*x + w[i][b] * vb) % Q;
                        }
                    }
                    (f, vec, pick)
                })
                .collect()
        };
        let (left, right) = if m >= 2 { (enumerate_half(0..half), enumerate_half(half..m)) } else { (vec![(0, vec![0; m], vec![])], enumerate_half(0..m)) };
        combos += (left.len() as u64) * (right.len() as u64);
        // bucket the left half by its first coordinate (bucket width g)
        let nb = (Q / g + 1) as usize;
        let mut buckets: Vec<Vec<usize>> = vec![Vec::new(); nb];
        for (i, (_, v, _)) in left.iter().enumerate() {
            buckets[(v[0] / g) as usize].push(i);
        }
        let centred = |x: i64| if x > Q / 2 { x - Q } else { x };
        let best: Option<(i64, usize, usize)> = right
            .par_iter()
            .enumerate()
            .filter_map(|(ri, (fr, vr, _))| {
                // need (vl[0] + vr[0]) mod q in (-g, g): vl[0] in (-vr[0]-g, -vr[0]+g) mod q
                let target = mod_q(-vr[0]);
                let mut bestl: Option<(i64, usize)> = None;
                let b0 = (target / g) as i64;
                for db in -2..=2i64 {
                    let b = (b0 + db).rem_euclid(nb as i64) as usize;
                    for &li in &buckets[b] {
                        let (fl, vl, _) = &left[li];
                        if (0..m).all(|i| centred((vl[i] + vr[i]) % Q).abs() < g) && bestl.map_or(true, |(f, _)| *fl > f) {
                            bestl = Some((*fl, li));
                        }
                    }
                }
                // the wrap-around bucket (residues near 0 / q) is covered by db = +-1 modulo nb, plus the last partial bucket
                bestl.map(|(fl, li)| (fl + fr, li, ri))
            })
            .max_by_key(|x| x.0);
        match best {
            None => {
                adm.push(0);
                all_found = false;
            }
            Some((f, li, ri)) => {
                adm.push(1);
                total += f;
                let a: Vec<i64> = (0..m).map(|i| centred((left[li].1[i] + right[ri].1[i]) % Q)).collect();
                for (i, &ai) in a.iter().enumerate() {
                    z[j][i * step] = ai as i32;
                }
            }
        }
    }
    SearchResult { z: all_found.then_some(z), predicted_sum_over_q: total as f64 / Q as f64, admissible_per_poly: adm, residues_evaluated: residues, combinations_enumerated: combos }
}

/// m = 1: complete enumeration of the family (all admissible constants per polynomial; the objective separates)
#[cfg(feature = "kernels")]
pub fn search_m1(p: &'static Params, rho: &[u8; 32], row: usize, sign: i64) -> (Vec<Poly>, f64, u64) {
    let a_hat = refmodel::expand_a(p, rho);
    let g = p.gamma1 - p.beta;
    let (v, _) = block_matrix(1);
    let v00 = v[0][0];
    let mut z = vec![POLY0; p.l];
    let mut total = 0i64;
    for j in 0..p.l {
        let coeffs: Vec<i64> = (0..256).map(|n| i64::from(a_hat[row][j][n])).collect();
        let best = (-(g - 1)..g)
            .into_par_iter()
            .map(|a| {
                let vm = to_mont_scalar(mod_q(a * v00));
                (coeffs.iter().map(|&c| mont(c * vm)).sum::<i64>() * sign, a)
            })
            .max_by_key(|x| x.0)
            .unwrap();
        total += best.0;
        z[j][0] = best.1 as i32;
    }
    (z, total as f64 / Q as f64, (2 * g - 1) as u64 * p.l as u64)
}

// ---------------------------------------------------------------- witnesses

pub fn witness_path(p: &Params) -> String { format!("{}/witnesses/e7_mldsa{}.json", crate::report::verif_root(), p.id) }

pub fn z_to_json(z: &[Poly]) -> Value {
    json!(z.iter().map(|poly| poly.iter().enumerate().filter(|(_, &c)| c != 0).map(|(i, &c)| json!([i, c])).collect::<Vec<_>>()).collect::<Vec<_>>())
}
pub fn z_from_json(p: &Params, v: &Value) -> Vec<Poly> {
    let mut z = vec![POLY0; p.l];
    for (j, poly) in v.as_array().unwrap().iter().enumerate() {
        for e in poly.as_array().unwrap() {
            z[j][e[0].as_u64().unwrap() as usize] = e[1].as_i64().unwrap() as i32;
        }
    }
    z
}

pub struct Witness {
    pub name: String,
    pub rho: [u8; 32],
    pub z: Vec<Poly>,
}
pub fn load_witness_list(p: &'static Params) -> Vec<Witness> {
    let Ok(text) = std::fs::read_to_string(witness_path(p)) else { return Vec::new() };
    let Ok(v) = serde_json::from_str::<Value>(&text) else { return Vec::new() };
    v["witnesses"]
        .as_array()
        .map(|a| {
            a.iter()
                .map(|w| Witness { name: w["name"].as_str().unwrap_or("").to_string(), rho: unhex(w["rho"].as_str().unwrap()).try_into().unwrap(), z: z_from_json(p, &w["z"]) })
                .collect()
        })
        .unwrap_or_default()
}

/// the witnesses completed to signatures FIPS 204 accepts (zero-t1 forging): verification cases
pub fn load_witnesses(p: &'static Params) -> Vec<(String, VCase)> {
    load_witness_list(p)
        .into_iter()
        .map(|w| {
            let pkb = Arc::new(refmodel::zero_t1_pk(p, &w.rho));
            let pkc = PkCtx::new(p, &pkb);
            let msg = b"sparse-coset".to_vec();
            let mp = refmodel::format_message(Mode::Pure, &msg, b"").unwrap();
            let sig = refmodel::forge_zero_t1(&pkc, &mp, &w.z, &vec![POLY0; p.k], &vec![0u8; p.omega + p.k]);
            (w.name.clone(), VCase { class: format!("D7:sparse-coset:{}", w.name), pk: pkb, mode: Mode::Pure, msg, ctx: vec![], sig, intent: Some(true) })
        })
        .collect()
}

pub fn save_witnesses(p: &'static Params, ws: &[(String, [u8; 32], Vec<Poly>, f64)]) {
    let v = json!({"set": p.id, "family": "sparse-coset (DESIGN 3.2)", "witnesses": ws.iter().map(|(n, rho, z, s)| json!({"name": n, "rho": hex(rho), "z": z_to_json(z), "row_sum_over_q": s})).collect::<Vec<_>>()});
    std::fs::write(witness_path(p), serde_json::to_string_pretty(&v).unwrap()).expect("write witness");
}

// ---------------------------------------------------------------- slot-maximisation family (through verify())

/// Build (pk, signature) bytes for which ONE coefficient (row k, slot n) of the vector handed to the inverse
/// transform inside verification, sum_j mont(A[k][j][n] * to_mont(z_hat_j[n])) - mont(c_hat[n] * t1_2d_hat_mont[k][n]),
/// has all l+1 terms just above +q/2 (sign = +1) or below -q/2 (sign = -1). z_j are constant polynomials (so every
/// NTT slot equals the constant), each chosen by COMPLETE enumeration of its range; t1[k] is a constant b0 chosen over
/// all 1024 values x a list of challenge seeds. The signature is not valid (c_tilde is arbitrary); FIPS 204 rejects it.
pub fn slot_max_case(p: &'static Params, rho: &[u8; 32], k: usize, n: usize, sign: i64) -> (VCase, i64) {
    let a_hat = refmodel::expand_a(p, rho);
    let g = p.gamma1 - p.beta - 1;
    // guide arithmetic: transcriptions of the Montgomery / Barrett steps (the verdict comes from verify() itself)
    let tm = |a: i64| to_mont_scalar(a);
    let mont_guide = |a: i64| mont(a);
    let mut z = vec![POLY0; p.l];
    let mut total = 0i64;
    for j in 0..p.l {
        let coeff = i64::from(a_hat[k][j][n]);
        let best = (-g..=g).into_par_iter().map(|a| (mont_guide(coeff * tm(a)) * sign, a)).max().unwrap();
        z[j][0] = best.1 as i32;
        total += best.0;
    }
    // challenge seed x t1 constant
    let mut best_t: (i64, usize, i64) = (i64::MIN, 0, 0);
    for ci in 0..48usize {
        let c_tilde = refmodel::shake256(&[b"slot-max", &(ci as u32).to_le_bytes()], p.ctilde_len());
        let c = refmodel::sample_in_ball(p, &c_tilde);
        let c_hat_n = refmodel::mod_pm(i64::from(refmodel::ntt(&c)[n]), Q);
        for b0 in 0..1024i64 {
            let x = mont_guide(tm(b0) << 13);
            let t = tm(x);
            let term = -mont_guide(c_hat_n * t) * sign;
            if term > best_t.0 {
                best_t = (term, ci, b0);
            }
        }
    }
    total += best_t.0;
    let c_tilde = refmodel::shake256(&[b"slot-max", &(best_t.1 as u32).to_le_bytes()], p.ctilde_len());
    let mut t1 = vec![POLY0; p.k];
    t1[k][0] = best_t.2 as i32;
    let pk = refmodel::pk_encode(p, rho, &t1);
    let sig = refmodel::sig_encode(p, &c_tilde, &z, &vec![POLY0; p.k]);
    (
        VCase { class: format!("D7c:slot-max:row{k}:slot{n}:sign{sign}"), pk: Arc::new(pk), mode: Mode::Pure, msg: b"slot-max".to_vec(), ctx: vec![], sig, intent: None },
        total,
    )
}

pub fn slot_max_cases(p: &'static Params, thorough: bool) -> Vec<(VCase, i64)> {
    let rho = [0x42u8; 32];
    let slots: Vec<usize> = if thorough { vec![0, 1, 66, 130, 242, 255] } else { vec![0, 130] };
    let mut out = Vec::new();
    for &n in &slots {
        for sign in [1i64, -1] {
            out.push(slot_max_case(p, &rho, 0, n, sign));
            if thorough {
                out.push(slot_max_case(p, &rho, p.k - 1, n, sign));
            }
        }
    }
    out
}
