// stub
