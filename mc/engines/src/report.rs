//! Evidence / violation bookkeeping shared by all engines.

use serde_json::{json, Map, Value};
use std::collections::{BTreeMap, BTreeSet};
use std::time::Instant;

#[derive(Clone, Copy, PartialEq, Eq, Debug)]
pub enum Tier {
    Quick,
    Thorough,
}
impl Tier {
    pub fn name(self) -> &'static str {
        match self {
            Tier::Quick => "quick",
            Tier::Thorough => "thorough",
        }
    }
    pub fn pick<T>(self, q: T, t: T) -> T {
        match self {
            Tier::Quick => q,
            Tier::Thorough => t,
        }
    }
}

#[derive(Clone, Debug)]
pub struct Violation {
    /// stable identifier of *what* fails (site / input class), used to match known findings
    pub key: String,
    pub summary: String,
    /// everything needed to re-execute the case without the explorer
    pub replay: Value,
}

pub struct Report {
    pub id: String,
    pub tier: Tier,
    pub seed: u64,
    pub level: &'static str,
    pub profile: String,
    pub start: Instant,
    pub evaluations: u64,
    pub nontrivial: u64,
    nontrivial_ids: BTreeSet<u64>,
    pub rule: String,
    pub classes: BTreeMap<String, u64>,
    pub outcomes: BTreeMap<String, u64>,
    pub samples: Vec<Value>,
    pub extra: Map<String, Value>,
    pub assumptions: Vec<String>,
    /// violations NOT listed in known_findings.txt (first 8 distinct ones kept for printing / replay files)
    pub violations: Vec<Violation>,
    pub violations_total: u64,
    /// cases matching a `finding:` line of known_findings.txt: kept apart so that they can never crowd out an unlisted one
    pub known_cases: Vec<Violation>,
    pub known_total: u64,
    known_keys: Option<Vec<String>>,
    pub caps_hit: Vec<String>,
    pub exhaustive: bool,
    pub required_classes: Vec<String>,
    pub machinery_errors: Vec<String>,
}

pub fn fnv(data: &[u8]) -> u64 {
    let mut h: u64 = 0xcbf2_9ce4_8422_2325;
    for b in data {
        h ^= u64::from(*b);
        h = h.wrapping_mul(0x0100_0000_01b3);
    }
    h
}

impl Report {
    pub fn new(id: &str, tier: Tier, seed: u64, level: &'static str, profile: &str) -> Report {
        Report {
            id: id.to_string(),
            tier,
            seed,
            level,
            profile: profile.to_string(),
            start: Instant::now(),
            evaluations: 0,
            nontrivial: 0,
            nontrivial_ids: BTreeSet::new(),
            rule: String::new(),
            classes: BTreeMap::new(),
            outcomes: BTreeMap::new(),
            samples: Vec::new(),
            extra: Map::new(),
            assumptions: Vec::new(),
            violations: Vec::new(),
            violations_total: 0,
            known_cases: Vec::new(),
            known_total: 0,
            known_keys: None,
            caps_hit: Vec::new(),
            exhaustive: true,
            required_classes: Vec::new(),
            machinery_errors: Vec::new(),
        }
    }
    /// count `n` executed cases of class `class`
    pub fn count(&mut self, class: &str, n: u64) {
        self.evaluations += n;
        *self.classes.entry(class.to_string()).or_insert(0) += n;
    }
    /// count n cases that are distinct by construction (distinct indices of an enumerated product space)
    /// and non-trivial by the engine's stated rule
    pub fn nontrivial_by_construction(&mut self, n: u64) { self.nontrivial += n; }
    /// count one non-trivial case identified by a hash of its content (deduplicated)
    pub fn nontrivial_case(&mut self, content_hash: u64) {
        if self.nontrivial_ids.insert(content_hash) {
            self.nontrivial += 1;
        }
    }
    pub fn outcome(&mut self, name: &str, n: u64) { *self.outcomes.entry(name.to_string()).or_insert(0) += n; }
    pub fn sample(&mut self, v: Value) {
        if self.samples.len() < 12 {
            self.samples.push(v);
        }
    }
    pub fn require_class(&mut self, c: &str) { self.required_classes.push(c.to_string()); }
    pub fn violate(&mut self, v: Violation) {
        if self.known_keys.is_none() {
            self.known_keys = Some(load_known_findings(&self.id));
        }
        if self.known_keys.as_ref().unwrap().iter().any(|k| v.key.contains(k.as_str())) {
            self.known_total += 1;
            if self.known_cases.len() < 8 && !self.known_cases.iter().any(|x| x.key == v.key && x.summary == v.summary) {
                self.known_cases.push(v);
            }
            return;
        }
        self.violations_total += 1;
        if self.violations.len() < 8 && !self.violations.iter().any(|x| x.key == v.key && x.summary == v.summary) {
            self.violations.push(v);
        }
    }
    pub fn cap(&mut self, what: &str) {
        self.caps_hit.push(what.to_string());
        self.exhaustive = false;
    }
    pub fn machinery(&mut self, what: String) { self.machinery_errors.push(what); }

    /// write evidence, print VIOLATION / KNOWN-FINDING lines; returns the process exit code
    pub fn finish(mut self, evidence_path: &str) -> i32 {
        // vacuity guards
        for c in self.required_classes.clone() {
            if self.classes.get(&c).copied().unwrap_or(0) == 0 {
                self.machinery(format!("declared class '{c}' has no member (vacuous enumeration)"));
            }
        }
        let unlisted: Vec<&Violation> = self.violations.iter().collect();
        let listed: Vec<&Violation> = self.known_cases.iter().collect();
        let wall = self.start.elapsed().as_secs_f64();
        let mut coverage = Map::new();
        coverage.insert("evaluations".into(), json!(self.evaluations));
        coverage.insert("distinct_nontrivial".into(), json!(self.nontrivial));
        coverage.insert("rule".into(), json!(self.rule));
        coverage.insert("samples".into(), Value::Array(self.samples.clone()));
        coverage.insert("exhaustive".into(), json!(self.exhaustive && self.caps_hit.is_empty()));
        coverage.insert("caps_hit".into(), json!(self.caps_hit));
        coverage.insert("classes".into(), json!(self.classes));
        coverage.insert("distinct_outcomes".into(), json!(self.outcomes));
        coverage.insert("build_profile".into(), json!(self.profile));
        coverage.insert("known_finding_cases".into(), json!(self.known_total));
        for (k, v) in &self.extra {
            coverage.insert(k.clone(), v.clone());
        }
        let ev = json!({
            "property_id": self.id,
            "tier": self.tier.name(),
            "seed": self.seed,
            "level": self.level,
            "coverage": Value::Object(coverage),
            "assumptions": self.assumptions,
            "wall_s": wall,
            // cases listed in known_findings.txt are reported as KNOWN-FINDING lines and counted separately
            "violations": self.violations_total,
            "machinery_errors": self.machinery_errors,
        });
        if let Some(dir) = std::path::Path::new(evidence_path).parent() {
            let _ = std::fs::create_dir_all(dir);
        }
        std::fs::write(evidence_path, serde_json::to_string_pretty(&ev).unwrap()).expect("write evidence");

        for v in &listed {
            println!("KNOWN-FINDING: property={} {}", self.id, v.summary);
        }
        let mut code = 0;
        if !unlisted.is_empty() {
            let dir = replay_dir();
            let _ = std::fs::create_dir_all(&dir);
            for v in &unlisted {
                let body = json!({"property": self.id, "key": v.key, "summary": v.summary, "profile": self.profile, "case": v.replay});
                let text = serde_json::to_string_pretty(&body).unwrap();
                let path = format!("{}/{}-{:016x}.json", dir, self.id, fnv(text.as_bytes()));
                std::fs::write(&path, text).expect("write replay");
                println!("VIOLATION property={} replay={}", self.id, path);
                println!("  what: {}", v.summary);
            }
            if self.violations_total > unlisted.len() as u64 {
                println!("  ({} violating cases in total; first {} distinct ones written)", self.violations_total, unlisted.len());
            }
            code = 1;
        }
        if !self.machinery_errors.is_empty() && code == 0 {
            for m in &self.machinery_errors {
                eprintln!("MACHINERY-ERROR {}: {}", self.id, m);
            }
            code = 2;
        }
        println!(
            "[{}] tier={} profile={} evaluations={} distinct_nontrivial={} violations={} known_finding_cases={} wall={:.1}s exhaustive={}",
            self.id,
            self.tier.name(),
            self.profile,
            self.evaluations,
            self.nontrivial,
            self.violations_total,
            self.known_total,
            wall,
            self.exhaustive && self.caps_hit.is_empty()
        );
        code
    }
}

pub fn verif_root() -> String { std::env::var("VERIF_ROOT").unwrap_or_else(|_| "/verif".to_string()) }
pub fn replay_dir() -> String { format!("{}/replays", verif_root()) }

/// `finding: property=<ID> key=<substring of violation key> ...` lines of known_findings.txt.
/// `fixed:` lines suppress nothing.
pub fn load_known_findings(id: &str) -> Vec<String> {
    let path = format!("{}/known_findings.txt", verif_root());
    let Ok(text) = std::fs::read_to_string(path) else { return Vec::new() };
    let mut out = Vec::new();
    for line in text.lines() {
        let line = line.trim();
        if !line.starts_with("finding:") {
            continue;
        }
        if !line.contains(&format!("property={id} ")) {
            continue;
        }
        if let Some(pos) = line.find("key=") {
            let rest = &line[pos + 4..];
            let key = rest.split_whitespace().next().unwrap_or("");
            if !key.is_empty() {
                out.push(key.to_string());
            }
        }
    }
    out
}
