use crate::{report::Report, Ctx};
pub fn c12(_c: &Ctx, _r: &mut Report) {}
pub fn c13(_c: &Ctx, _r: &mut Report) {}
pub fn c15(_c: &Ctx, _r: &mut Report) {}
pub fn c16(_c: &Ctx, _r: &mut Report) {}
pub fn c18(_c: &Ctx, _r: &mut Report) {}
