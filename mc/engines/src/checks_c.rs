#![allow(unused_imports, dead_code)]
//! C15 (coefficient arithmetic on complete domains) and C16 (zeroize on drop).

use crate::report::{Report, Tier, Violation};
use crate::subject::{guard, APIS};
use crate::Ctx;
#[cfg(feature = "kernels")]
use fips204::verif_hooks as hk;
use rayon::prelude::*;
use refmodel::{mod_pm, mod_q, Q};
use serde_json::json;

pub use crate::checks_d::{c12, c13};
#[cfg(feature = "kernels")]
pub use crate::checks_e::c18;

const G2: [i64; 2] = [(Q - 1) / 88, (Q - 1) / 32];
/// documented input bound of partial_reduce32 / full_reduce32 / center_mod
const R32: i64 = 2_143_289_344;

/// Complete enumeration of the integer interval [lo, hi] (inclusive) in parallel chunks. `f` returns a
/// description of the failure for a failing input. A panic inside a chunk (a library self-check firing)
/// is localised by re-running the chunk input by input.
#[cfg(feature = "kernels")]
fn sweep(rep: &mut Report, name: &str, lo: i64, hi: i64, exhaustive_for: &str, f: &(dyn Fn(i64) -> Option<String> + Sync)) {
    let chunk: i64 = 1 << 20;
    let nchunks = (hi - lo) / chunk + 1;
    let fails: Vec<(i64, String)> = (0..nchunks)
        .into_par_iter()
        .filter_map(|c| {
            let a = lo + c * chunk;
            let b = (a + chunk - 1).min(hi);
            let r = guard(|| {
                for x in a..=b {
                    if let Some(w) = f(x) {
                        return Some((x, w));
                    }
                }
                None
            });
            match r {
                Ok(v) => v,
                Err(_) => {
                    for x in a..=b {
                        match guard(|| f(x)) {
                            Ok(Some(w)) => return Some((x, w)),
                            Err(p) => return Some((x, format!("panic: {}", p.0))),
                            Ok(None) => {}
                        }
                    }
                    None
                }
            }
        })
        .collect();
    let n = (hi - lo + 1) as u64;
    rep.count(name, n);
    rep.nontrivial_by_construction(n);
    rep.extra.entry("domains").or_insert(json!({})).as_object_mut().unwrap().insert(name.to_string(), json!({"lo": lo, "hi": hi, "inputs": n, "complete_for": exhaustive_for}));
    if let Some((x, w)) = fails.iter().min_by_key(|f| f.0.abs()) {
        rep.violate(Violation {
            key: format!("c15:{}", name.split('[').next().unwrap_or(name).trim()),
            summary: format!("{name}: input {x}: {w} ({} failing chunk(s))", fails.len()),
            replay: json!({"engine":"kernel","kernel":name,"input":x}),
        });
    }
}

#[cfg(feature = "kernels")]
pub fn c15(cx: &Ctx, rep: &mut Report) {
    rep.rule = "complete domains through the verif_hooks wrappers against big-integer definitions: Power2Round / Decompose / HighBits / LowBits / UseHint on every r in Z_q (and the reducing prologue on the documented i32 range) x both gamma2 x h in {0,1}; MakeHint on every r x a z alphabet in both representations its caller supplies; mod+- , partial_reduce32, full_reduce32 on their documented input range; CoeffFromThreeBytes on all 2^24 inputs (x CTEST); CoeffFromHalfByte on 16 x eta x CTEST; partial_reduce64 on every x*2^32 with |x| below its bound; Montgomery reduction on all 2^32 low words x boundary high words; the zeta table. Each input of a complete domain is a distinct case.".into();
    let t = cx.tier;
    let full32 = t == Tier::Thorough;
    let lim32 = if full32 { R32 - 1 } else { 3 * Q };

    // ---- Power2Round on Z_q (hook is vector-shaped: feed 256 consecutive residues per call)
    sweep(rep, "power2round[r in Z_q, 256 per call]", 0, (Q - 1) / 256, "Z_q", &|blk| {
        let base = blk * 256;
        let poly: [i32; 256] = core::array::from_fn(|i| ((base + i as i64).min(Q - 1)) as i32);
        let (r1, r0) = hk::power2round(&[poly]);
        for i in 0..256 {
            let want = refmodel::power2round(i64::from(poly[i]));
            if (i64::from(r1[0][i]), i64::from(r0[0][i])) != want {
                return Some(format!("r={} got ({}, {}) want {:?}", poly[i], r1[0][i], r0[0][i], want));
            }
        }
        None
    });

    for g2 in G2 {
        let g = g2 as i32;
        // ---- Decompose / HighBits / LowBits
        // every representative its callers supply: HighBits(w) with w in [0,q), LowBits of a partially reduced value in
        // (-q, q), and HighBits(r + z) inside MakeHint with r in (-q, q), z in (0, q]
        sweep(rep, &format!("decompose+high_bits+low_bits[gamma2={g2}]"), -(Q - 1), 2 * Q, "every representative in (-q, 2q] (the shapes its callers supply; covers Z_q three times)", &|r| {
            let want = refmodel::decompose(g2, r);
            let got = hk::decompose(g, r as i32);
            if (i64::from(got.0), i64::from(got.1)) != want {
                return Some(format!("decompose got {got:?} want {want:?}"));
            }
            if i64::from(hk::high_bits(g, r as i32)) != want.0 || i64::from(hk::low_bits(g, r as i32)) != want.1 {
                return Some("high_bits/low_bits disagree with Decompose".to_string());
            }
            None
        });
        // ---- UseHint: r in Z_q (and negative representatives) x h
        sweep(rep, &format!("use_hint[gamma2={g2}, h in {{0,1}}]"), 0, Q - 1, "Z_q x {0,1} (its caller supplies canonical residues)", &|r| {
            for h in 0..2 {
                let want = refmodel::use_hint(g2, h, r);
                let got = i64::from(hk::use_hint(g, h as i32, r as i32));
                if got != want {
                    return Some(format!("h={h} got {got} want {want}"));
                }
            }
            None
        });
        // ---- MakeHint: every r in (-q, q) x z alphabet, z passed as its caller does (q - ct0 in (0, q])
        let mut zs: Vec<i64> = (-64..=64).collect();
        for d in [-1i64, 0, 1] {
            for m in [g2, 2 * g2, g2 - 1 - 78, g2 - 1 - 196, g2 - 1 - 120] {
                zs.push(m + d);
                zs.push(-(m + d));
            }
        }
        zs.extend([Q - 1, -(Q - 1), (Q - 1) / 2, -(Q - 1) / 2]);
        zs.sort_unstable();
        zs.dedup();
        let rlo = if t == Tier::Thorough { -(Q - 1) } else { 0 };
        let zs2 = zs.clone();
        sweep(rep, &format!("make_hint[gamma2={g2}, {} z values]", zs.len()), rlo, Q - 1, "r over all residues x z alphabet", &move |r| {
            for &z in &zs2 {
                let want = refmodel::make_hint(g2, z, r);
                let zl = mod_q(z);
                let zlib = if zl == 0 { Q } else { zl };
                if hk::make_hint(g, zlib as i32, r as i32) != want {
                    return Some(format!("z={z} (passed as {zlib}) want {want}"));
                }
            }
            None
        });
        // duality: UseHint(MakeHint(z, r), r + z) = HighBits(r) ... (FIPS 204 Lemma), for |z| <= gamma2
        sweep(rep, &format!("use_hint(make_hint) duality[gamma2={g2}]"), 0, Q - 1, "r in Z_q x z in {+-1, +-gamma2}", &|r| {
            for z in [1i64, -1, g2, -g2, 17, -4096] {
                let zlib = if mod_q(z) == 0 { Q } else { mod_q(z) };
                let h = hk::make_hint(g, zlib as i32, r as i32);
                let rz = mod_q(r + z);
                let got = i64::from(hk::use_hint(g, i32::from(h), r as i32));
                // UseHint(h, r) with h = MakeHint(z, r) recovers HighBits(r + z)
                if got != refmodel::high_bits(g2, rz) {
                    return Some(format!("z={z}: UseHint(MakeHint(z,r), r) = {got}, HighBits(r+z) = {}", refmodel::high_bits(g2, rz)));
                }
            }
            None
        });
    }

    // ---- mod+-, reductions
    sweep(rep, "center_mod", -lim32, lim32, if full32 { "documented range |a| < 2143289344" } else { "[-3q, 3q]" }, &|a| {
        let got = i64::from(hk::center_mod(a as i32));
        let want = mod_pm(a, Q);
        (got != want).then(|| format!("got {got} want {want}"))
    });
    // the documented range is completely enumerable for the two 32-bit reductions (cheap)
    sweep(rep, "partial_reduce32", -(R32 - 1), R32 - 1, "documented range |a| < 2143289344", &|a| {
        let got = i64::from(hk::partial_reduce32(a as i32));
        ((got - a) % Q != 0 || got.abs() >= Q).then(|| format!("got {got}: not congruent or outside (-q, q)"))
    });
    sweep(rep, "full_reduce32", -(R32 - 1), R32 - 1, "documented range |a| < 2143289344", &|a| {
        let got = i64::from(hk::full_reduce32(a as i32));
        (got != mod_q(a)).then(|| format!("got {got} want {}", mod_q(a)))
    });
    // partial_reduce64: the only shape its caller (to_mont) supplies is x * 2^32
    let b64: i64 = 67_058_539;
    sweep(rep, "partial_reduce64[x*2^32]", -(b64 - 1), b64 - 1, "every x*2^32 with |x| < 67058539", &|x| {
        let a = x << 32;
        let got = i64::from(hk::partial_reduce64(a));
        let ok = (i128::from(got) - i128::from(a)).rem_euclid(i128::from(Q)) == 0 && got.abs() < 2 * Q;
        (!ok).then(|| format!("got {got}: not congruent to x*2^32 or outside (-2q, 2q)"))
    });

    // ---- infinity norm (max of |mod+-|): one-hot value sweeps and dense vectors
    sweep(rep, "infinity_norm[one-hot value sweep]", -(Q - 1), Q - 1, "every representative in (-q, q) at a one-hot position, on two backgrounds", &|v| {
        for (bg, pos) in [(0i32, (v.unsigned_abs() % 256) as usize), (1000, 255)] {
            let mut w = [bg; 256];
            w[pos] = v as i32;
            let got = i64::from(hk::infinity_norm(&[w]));
            let want = mod_pm(v, Q).abs().max(i64::from(bg));
            if got != want {
                return Some(format!("one-hot {v} at {pos} on background {bg}: got {got} want {want}"));
            }
        }
        None
    });
    // ---- CoeffFromThreeBytes / CoeffFromHalfByte
    sweep(rep, "coeff_from_three_bytes[CTEST=false]", 0, (1 << 24) - 1, "all 2^24 inputs", &|x| {
        let b = [x as u8, (x >> 8) as u8, (x >> 16) as u8];
        let got = hk::coeff_from_three_bytes::<false>(b).ok();
        let want = refmodel::coeff_from_three_bytes(b[0], b[1], b[2]);
        (got != want).then(|| format!("bytes {b:?} got {got:?} want {want:?}"))
    });
    sweep(rep, "coeff_from_three_bytes[CTEST=true]", 0, (1 << 24) - 1, "all 2^24 inputs", &|x| {
        let b = [x as u8, (x >> 8) as u8, (x >> 16) as u8];
        let got = hk::coeff_from_three_bytes::<true>(b).ok();
        // test mode: bit 6 of b2 is masked too, so rejection never happens
        let want = refmodel::coeff_from_three_bytes(b[0], b[1], b[2] & 0x3F);
        (got != want || got.is_none()).then(|| format!("bytes {b:?} got {got:?} want {want:?}"))
    });
    sweep(rep, "coeff_from_half_byte[16 x eta x CTEST]", 0, 63, "complete", &|x| {
        let b = (x & 15) as u8;
        let eta = if x & 16 == 0 { 2 } else { 4 };
        let ct = x & 32 != 0;
        let got = if ct { hk::coeff_from_half_byte::<true>(eta as i32, b).ok() } else { hk::coeff_from_half_byte::<false>(eta as i32, b).ok() };
        let want = refmodel::coeff_from_half_byte(eta, if ct { b & 7 } else { b });
        (got != want).then(|| format!("eta={eta} b={b} ctest={ct} got {got:?} want {want:?}"))
    });

    // ---- Montgomery reduction: all 2^32 low words x boundary high words
    let hi_min: i64 = -4_190_209; // floor(-2^31 q / 2^32)
    let hi_max: i64 = 4_190_208;
    let mut highs: Vec<i64> = match t {
        Tier::Quick => vec![hi_min, -1, 0, hi_max],
        Tier::Thorough => vec![hi_min, hi_min + 1, -2, -1, 0, 1, hi_max - 1, hi_max],
    };
    if t == Tier::Thorough {
        for i in 0..24 {
            highs.push(hi_min + 2 + i * ((hi_max - hi_min - 4) / 23));
        }
    }
    highs.sort_unstable();
    highs.dedup();
    let a_min: i64 = -17_996_808_479_301_632;
    let a_max: i64 = 17_996_808_470_921_215;
    for &hi in &highs {
        sweep(rep, &format!("mont_reduce[high word {hi}, all 2^32 low words]"), 0, (1i64 << 32) - 1, "all low words for this high word (inside the documented input range)", &|lo| {
            let a = (hi << 32) + lo;
            if a < a_min || a > a_max {
                return None; // outside the documented precondition
            }
            let r = i64::from(hk::mont_reduce(a));
            let ok = ((r << 32) - a) % Q == 0 && r.abs() < Q;
            (!ok).then(|| format!("a={a} got {r}: r*2^32 not congruent to a or |r| >= q"))
        });
    }
    // products of the shapes callers supply: zeta * coefficient, on a lattice of both factors
    sweep(rep, "mont_reduce[zeta_i * v lattice]", 0, 255, "256 table entries x 2^16-stride lattice of v in (-2^31, 2^31)", &|i| {
        let z = i64::from(hk::zeta_table_mont()[i as usize]);
        let mut v: i64 = -(1 << 31) + 1;
        while v < (1 << 31) {
            let a = z * v;
            if a >= a_min && a <= a_max {
                let r = i64::from(hk::mont_reduce(a));
                if ((i128::from(r) << 32) - i128::from(a)).rem_euclid(i128::from(Q)) != 0 || r.abs() >= Q {
                    return Some(format!("zeta[{i}]*{v}"));
                }
            }
            v += 65_521;
        }
        None
    });
    // ---- zeta table
    sweep(rep, "zeta_table_mont", 0, 255, "all 256 entries", &|i| {
        let want = (i128::from(refmodel::zetas()[i as usize]) << 32).rem_euclid(i128::from(Q)) as i64;
        let got = i64::from(hk::zeta_table_mont()[i as usize]);
        (mod_q(got) != want).then(|| format!("entry {i}: got {got} want {want}"))
    });
    rep.sample(json!({"kernel":"decompose","gamma2":95232,"r":8285185,"standard":"(0, -95232) [corner r+ - r0 = q-1]"}));
    rep.sample(json!({"kernel":"mont_reduce","high_words":highs,"low_words":"all 2^32"}));
    if t == Tier::Quick {
        rep.caps_hit.push("quick tier: center_mod on [-3q,3q] instead of its full documented range; mont_reduce on 4 instead of 32 high words".into());
    }
}

// ------------------------------------------------------------------------------------------------ C16

pub fn c16(cx: &Ctx, rep: &mut Report) {
    rep.rule = "sets x {PrivateKey, PublicKey} x provenance {keygen_from_seed, try_keygen_with_rng, try_from_bytes, get_public_key, clone}: the object is placed in heap storage that outlives it, checked to hold non-zero data, destroyed in place with its own destructor, then EVERY byte of the storage is read (volatile) and must be zero. Each (set, type, provenance) is a distinct non-trivial case (no test inspects memory after drop).".into();
    let xi = crate::alpha::counter32(cx.seed, "seed", 9);
    for api in APIS {
        for kind in ["sk", "pk"] {
            let mut provs: Vec<&str> = if kind == "sk" { vec!["keygen_from_seed", "try_keygen_with_rng", "try_from_bytes", "clone"] } else { vec!["keygen_from_seed", "try_keygen_with_rng", "try_from_bytes", "get_public_key", "clone"] };
            // deserialised keys with all-zero byte fields (a destructor that treats "looks empty" as "already wiped" skips them)
            provs.extend(["try_from_bytes:rho=0", "try_from_bytes:K=0,tr=0", "try_from_bytes:rho=K=tr=0"]);
            for prov in provs {
                rep.count(&format!("{kind}:{prov}"), 1);
                rep.nontrivial_by_construction(1);
                let replay = json!({"engine":"zeroize","set":api.p.id,"kind":kind,"provenance":prov,"seed":refmodel::hex(&xi)});
                match (api.zeroize_probe)(kind, prov, &xi) {
                    Err(e) => rep.machinery(format!("zeroize probe failed to build the object ({kind}/{prov}): {e}")),
                    Ok((n, before, after)) => {
                        *rep.extra.entry("bytes_inspected").or_insert(json!(0)) = json!(rep.extra.get("bytes_inspected").and_then(|v| v.as_u64()).unwrap_or(0) + n as u64);
                        if before < n / 4 {
                            rep.machinery(format!("object {kind}/{prov} holds only {before} non-zero bytes of {n} before drop (vacuous)"));
                        }
                        if after.is_empty() {
                            rep.outcome("all_bytes_zero_after_drop", 1);
                        } else {
                            rep.outcome("residue_after_drop", 1);
                            rep.violate(Violation {
                                key: format!("c16:{kind}:residue"),
                                summary: format!("ML-DSA-{} {} obtained by {prov}: after drop, byte offsets {after:?}.. of the {n}-byte object are still non-zero", api.p.id, if kind == "sk" { "PrivateKey" } else { "PublicKey" }),
                                replay,
                            });
                        }
                    }
                }
            }
        }
        rep.sample(json!({"set": api.p.id, "objects": 9, "sk_bytes": api.sk_struct_size, "pk_bytes": api.pk_struct_size}));
    }
    rep.assumptions.push("the inspection reads freed-in-place storage that is still owned by the harness (Box<ManuallyDrop<T>>); moves of a key (e.g. into into_bytes(self)) leave copies the language does not let a destructor reach - not claimed".into());
}
