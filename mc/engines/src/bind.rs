//! Binding the reference model to the standard: replay NIST's ACVP vectors (copied from the repository
//! at framework time into /verif/mc/vectors, so that an edit of /repo cannot weaken the model).

use rayon::prelude::*;
use refmodel::{params, unhex, PkCtx, SkCtx};
use serde_json::Value;

fn load(name: &str) -> Result<Value, String> {
    let path = format!("{}/mc/vectors/{}.json", crate::report::verif_root(), name);
    let text = std::fs::read_to_string(&path).map_err(|e| format!("{path}: {e}"))?;
    serde_json::from_str(&text).map_err(|e| format!("{path}: {e}"))
}
fn set_id(g: &Value) -> u32 {
    match g["parameterSet"].as_str().unwrap() {
        "ML-DSA-44" => 44,
        "ML-DSA-65" => 65,
        "ML-DSA-87" => 87,
        x => panic!("unknown set {x}"),
    }
}

/// returns the number of vectors the model agreed with (must be 180)
pub fn bind_model() -> Result<usize, String> {
    let mut jobs: Vec<Box<dyn Fn() -> Result<(), String> + Send + Sync>> = Vec::new();
    let kg = load("keyGen")?;
    for g in kg["testGroups"].as_array().unwrap() {
        let id = set_id(g);
        for t in g["tests"].as_array().unwrap() {
            let seed = unhex(t["seed"].as_str().unwrap());
            let pk = unhex(t["pk"].as_str().unwrap());
            let sk = unhex(t["sk"].as_str().unwrap());
            let tc = t["tcId"].clone();
            jobs.push(Box::new(move || {
                let out = refmodel::keygen_internal(params(id), seed.as_slice().try_into().unwrap());
                if out.pk == pk && out.sk == sk {
                    Ok(())
                } else {
                    Err(format!("keyGen tcId {tc}"))
                }
            }));
        }
    }
    let sg = load("sigGen")?;
    for g in sg["testGroups"].as_array().unwrap() {
        let id = set_id(g);
        let det = g["deterministic"].as_bool().unwrap();
        for t in g["tests"].as_array().unwrap() {
            let sk = unhex(t["sk"].as_str().unwrap());
            let m = unhex(t["message"].as_str().unwrap());
            let sig = unhex(t["signature"].as_str().unwrap());
            let rnd: [u8; 32] = if det { [0u8; 32] } else { unhex(t["rnd"].as_str().unwrap()).try_into().unwrap() };
            let tc = t["tcId"].clone();
            jobs.push(Box::new(move || {
                let got = refmodel::sign_internal(params(id), &sk, &m, &rnd);
                if got == sig {
                    Ok(())
                } else {
                    Err(format!("sigGen tcId {tc}"))
                }
            }));
        }
    }
    let sv = load("sigVer")?;
    for g in sv["testGroups"].as_array().unwrap() {
        let id = set_id(g);
        let pk = unhex(g["pk"].as_str().unwrap());
        for t in g["tests"].as_array().unwrap() {
            let m = unhex(t["message"].as_str().unwrap());
            let sig = unhex(t["signature"].as_str().unwrap());
            let want = t["testPassed"].as_bool().unwrap();
            let tc = t["tcId"].clone();
            let pk = pk.clone();
            jobs.push(Box::new(move || {
                let p = params(id);
                let got = sig.len() == p.sig_len && refmodel::verify_internal(p, &pk, &m, &sig);
                if got == want {
                    Ok(())
                } else {
                    Err(format!("sigVer tcId {tc}"))
                }
            }));
        }
    }
    let results: Vec<Result<(), String>> = jobs.par_iter().map(|j| j()).collect();
    let bad: Vec<String> = results.iter().filter_map(|r| r.clone().err()).collect();
    if !bad.is_empty() {
        return Err(format!("reference model disagrees with ACVP vectors: {bad:?}"));
    }
    Ok(results.len())
}

/// One ACVP key pair per set (first keyGen vector), handy as an "independent" honest key.
pub fn acvp_keypair(id: u32) -> (Vec<u8>, Vec<u8>) {
    let kg = load("keyGen").expect("vectors");
    for g in kg["testGroups"].as_array().unwrap() {
        if set_id(g) == id {
            let t = &g["tests"][0];
            return (unhex(t["pk"].as_str().unwrap()), unhex(t["sk"].as_str().unwrap()));
        }
    }
    unreachable!()
}

#[allow(dead_code)]
pub fn ctxs(id: u32) -> (PkCtx, SkCtx) {
    let (pk, sk) = acvp_keypair(id);
    (PkCtx::new(params(id), &pk), SkCtx::new(params(id), &sk))
}
