//! E3 hintgraph: Algorithm 21 (HintBitUnpack) as an explicit transition system whose paths are
//! concretised into byte strings and replayed against the implementation (model + conformance).
//!
//! The model is `trace_alg21`: a step-by-step execution of Algorithm 21 that records the abstract
//! automaton state after every step — (polynomial i, Index, Index-First clipped, relation of the last
//! two index bytes) — and the verdict with the line that produced it. `structured_strings` enumerates
//! the choice tree: per-polynomial counts (every composition of T <= bound hints over k polynomials),
//! index bytes from a small alphabet (so that every order relation <,=,> between neighbours occurs),
//! the padding choice, and every count-byte deviation.

use refmodel::{Poly, POLY0};
use std::collections::BTreeSet;

#[derive(Clone, Debug, PartialEq, Eq, PartialOrd, Ord, Hash)]
pub enum Verdict {
    Accept,
    /// line 4: count < Index
    CountDecreases,
    /// line 4: count > omega
    CountTooLarge,
    /// line 9: indices not strictly increasing
    OrderViolation,
    /// line 17: non-zero padding
    Padding,
}

/// abstract automaton state: (polynomial index, Index, progress inside the polynomial (0,1,2+), relation of last two bytes)
pub type AState = (u8, u8, u8, i8);

pub struct Trace {
    pub verdict: Verdict,
    pub h: Option<Vec<Poly>>,
    pub states: Vec<AState>,
}

/// Algorithm 21, literally, with state recording
pub fn trace_alg21(k: usize, omega: usize, y: &[u8]) -> Trace {
    let mut states = Vec::new();
    let mut h = vec![POLY0; k];
    let mut index = 0usize;
    for i in 0..k {
        let cnt = usize::from(y[omega + i]);
        if cnt < index {
            return Trace { verdict: Verdict::CountDecreases, h: None, states };
        }
        if cnt > omega {
            return Trace { verdict: Verdict::CountTooLarge, h: None, states };
        }
        let first = index;
        states.push((i as u8, index as u8, 0, 0));
        while index < cnt {
            let mut rel = 0i8;
            if index > first {
                rel = match y[index - 1].cmp(&y[index]) {
                    std::cmp::Ordering::Less => -1,
                    std::cmp::Ordering::Equal => 0,
                    std::cmp::Ordering::Greater => 1,
                };
                if y[index - 1] >= y[index] {
                    states.push((i as u8, index as u8, 3, rel));
                    return Trace { verdict: Verdict::OrderViolation, h: None, states };
                }
            }
            h[i][usize::from(y[index])] = 1;
            index += 1;
            states.push((i as u8, index as u8, ((index - first).min(2)) as u8, rel));
        }
    }
    for j in index..omega {
        if y[j] != 0 {
            return Trace { verdict: Verdict::Padding, h: None, states };
        }
    }
    Trace { verdict: Verdict::Accept, h: Some(h), states }
}

#[derive(Clone, Debug)]
pub struct HintStr {
    pub class: String,
    pub y: Vec<u8>,
}

fn compositions(total: usize, parts: usize) -> Vec<Vec<usize>> {
    if parts == 1 {
        return vec![vec![total]];
    }
    let mut out = Vec::new();
    for first in 0..=total {
        for mut rest in compositions(total - first, parts - 1) {
            let mut v = vec![first];
            v.append(&mut rest);
            out.push(v);
        }
    }
    out
}

fn build(k: usize, omega: usize, counts: &[usize], idx: &[u8]) -> Vec<u8> {
    let mut y = vec![0u8; omega + k];
    y[..idx.len()].copy_from_slice(idx);
    let mut cum = 0;
    for i in 0..k {
        cum += counts[i];
        y[omega + i] = cum as u8;
    }
    y
}

/// every path of the choice tree with at most `max_hints` hints
pub fn structured_strings(k: usize, omega: usize, max_hints: usize) -> Vec<HintStr> {
    let alphabet: [u8; 4] = [0, 1, 128, 255];
    let mut out = Vec::new();
    for total in 0..=max_hints {
        for counts in compositions(total, k) {
            // all index-byte assignments from the alphabet
            let n = total;
            let combos = alphabet.len().pow(n as u32);
            for c in 0..combos {
                let mut idx = Vec::with_capacity(n);
                let mut cc = c;
                for _ in 0..n {
                    idx.push(alphabet[cc % alphabet.len()]);
                    cc /= alphabet.len();
                }
                let base = build(k, omega, &counts, &idx);
                out.push(HintStr { class: format!("T{total}:base"), y: base.clone() });
                // padding deviations
                if total < omega {
                    let mut y = base.clone();
                    y[total] = 1;
                    out.push(HintStr { class: format!("T{total}:pad-first-nonzero"), y });
                    let mut y = base.clone();
                    y[omega - 1] = 0x80;
                    out.push(HintStr { class: format!("T{total}:pad-last-nonzero"), y });
                    if total + 1 < omega - 1 {
                        let mut y = base.clone();
                        y[(total + omega) / 2] = 0xFF;
                        out.push(HintStr { class: format!("T{total}:pad-mid-nonzero"), y });
                    }
                }
                // count-byte deviations (only for the first index assignment of each composition class of order,
                // i.e. for every string: cheap enough)
                for i in 0..k {
                    let cur = base[omega + i];
                    for (nm, v) in [("minus1", cur.wrapping_sub(1)), ("plus1", cur.wrapping_add(1)), ("omega", omega as u8), ("omega+1", omega as u8 + 1), ("255", 255u8)] {
                        if v == cur {
                            continue;
                        }
                        let mut y = base.clone();
                        y[omega + i] = v;
                        out.push(HintStr { class: format!("T{total}:cnt[{}]={nm}", if i == 0 { "first" } else if i == k - 1 { "last" } else { "mid" }), y });
                    }
                }
            }
        }
    }
    out
}

/// strings with total weight around omega, in several split classes, plus order/padding/count deviations
pub fn heavy_strings(k: usize, omega: usize) -> Vec<HintStr> {
    let mut out = Vec::new();
    let splits = |total: usize| -> Vec<(String, Vec<usize>)> {
        let mut v = Vec::new();
        let mut a = vec![0; k];
        a[0] = total;
        v.push(("all-in-first".to_string(), a));
        let mut a = vec![0; k];
        a[k - 1] = total;
        v.push(("all-in-last".to_string(), a));
        let mut a = vec![total / k; k];
        a[k - 1] += total % k;
        v.push(("even".to_string(), a));
        if total >= k {
            let mut a = vec![1; k];
            a[k / 2] += total - k;
            v.push(("one-each-rest-mid".to_string(), a));
        }
        // two-polynomial splits around a boundary: (total - b) hints, then b hints in the next polynomial
        for i in [0usize, k - 2] {
            for b in [1usize, 2, total - 2, total - 1] {
                if b < total && total - b <= 256 && b <= 256 {
                    let mut a = vec![0; k];
                    a[i] = total - b;
                    a[i + 1] = b;
                    v.push((format!("boundary:poly{i}:{}+{b}", total - b), a));
                }
            }
        }
        // same with an empty polynomial between the two runs
        if k >= 3 {
            let mut a = vec![0; k];
            a[0] = total - 1;
            a[2] = 1;
            v.push(("boundary:gap".to_string(), a));
        }
        v
    };
    // runaway family: index bytes strictly increasing through the whole section and count bytes far above omega,
    // so that a decoder whose count <= omega guard is missing or late walks Index past the end of y
    for (nm, c0) in [("200+", 200u8), ("255", 255u8), ("omega+k", (omega + k) as u8), ("omega+k+1", (omega + k + 1) as u8)] {
        let mut y = vec![0u8; omega + k];
        for (i, b) in y.iter_mut().enumerate().take(omega) {
            *b = i as u8;
        }
        for i in 0..k {
            y[omega + i] = if nm == "200+" { c0 + i as u8 } else { c0 };
        }
        out.push(HintStr { class: format!("W:runaway-count={nm}"), y: y.clone() });
        // same, but only the last polynomial's count is over-large
        let mut y2 = y.clone();
        for i in 0..k - 1 {
            y2[omega + i] = ((i + 1) * (omega / k)) as u8;
        }
        out.push(HintStr { class: format!("W:runaway-last-count={nm}"), y: y2 });
    }
    for total in [omega - 1, omega] {
        for (sname, counts) in splits(total) {
            if counts.iter().any(|&c| c > 256) {
                continue;
            }
            // indices: consecutive from a start so that each run is strictly increasing
            for (iname, start_at_top) in [("low", false), ("high", true)] {
                let mut idx = Vec::new();
                for &c in &counts {
                    for j in 0..c {
                        idx.push(if start_at_top { (256 - c + j) as u8 } else { j as u8 });
                    }
                }
                let base = build(k, omega, &counts, &idx);
                out.push(HintStr { class: format!("W{}:{sname}:{iname}", if total == omega { "omega" } else { "omega-1" }), y: base.clone() });
                // one repeated index / one descending pair inside the longest run
                let (pi, _) = counts.iter().enumerate().max_by_key(|(_, c)| **c).unwrap();
                let off: usize = counts[..pi].iter().sum();
                if counts[pi] >= 2 {
                    for pos in [off + 1, off + counts[pi] - 1] {
                        let mut y = base.clone();
                        y[pos] = y[pos - 1];
                        out.push(HintStr { class: "W:repeated-index".into(), y });
                        let mut y = base.clone();
                        y.swap(pos, pos - 1);
                        out.push(HintStr { class: "W:descending-pair".into(), y });
                    }
                }
                if total < omega {
                    let mut y = base.clone();
                    y[omega - 1] = 1;
                    out.push(HintStr { class: "W:last-pad-byte-nonzero".into(), y });
                    let mut y = base.clone();
                    y[omega - 1] = 0xFF;
                    out.push(HintStr { class: "W:last-pad-byte-ff".into(), y });
                }
                // total count omega+1 .. (malformed)
                for i in 0..k {
                    let mut y = base.clone();
                    for j in i..k {
                        y[omega + j] = y[omega + j].saturating_add(1);
                    }
                    out.push(HintStr { class: "W:counts-shifted-up".into(), y });
                    let mut y = base.clone();
                    y[omega + i] = (omega + 1) as u8;
                    out.push(HintStr { class: "W:count=omega+1".into(), y });
                }
            }
        }
    }
    out
}

/// The hint vector a *lenient* decoder would read: every index byte of every run sets its coefficient,
/// counts clamped into [Index, omega]; ordering and padding ignored.
pub fn liberal_decode(k: usize, omega: usize, y: &[u8]) -> Vec<Poly> {
    let mut h = vec![POLY0; k];
    let mut index = 0usize;
    for i in 0..k {
        let cnt = usize::from(y[omega + i]).clamp(index, omega);
        while index < cnt {
            h[i][usize::from(y[index])] = 1;
            index += 1;
        }
    }
    h
}

pub fn distinct_states(traces: &[Vec<AState>]) -> usize {
    let mut s = BTreeSet::new();
    for t in traces {
        for a in t {
            s.insert(*a);
        }
    }
    s.len()
}
