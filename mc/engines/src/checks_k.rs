//! C08 (encodings are canonical): kernel-level check through the verif_hooks wrappers (feature `kernels`).
#![allow(unused_imports)]

use crate::alpha;
use crate::e3;
use crate::report::{fnv, Report, Tier, Violation};
use crate::subject::APIS;
use crate::Ctx;
use fips204::verif_hooks as hk;
use rayon::prelude::*;
use refmodel::{hex, Mode, Params, PkCtx, Poly, SkCtx, POLY0};
use serde_json::json;

// ------------------------------------------------------------------------------------------------ C08

fn poly_from(vals: &[(usize, i32)], bg: i32) -> Poly {
    let mut w = [bg; 256];
    for &(i, v) in vals {
        w[i] = v;
    }
    w
}

/// (a) structured hint strings at the real (k, omega) against hooks, model and re-encoding
fn c08_hint_real<const K: usize>(p: &'static Params, strings: &[e3::HintStr], rep: &mut Report) -> (usize, usize) {
    let omega = p.omega;
    let res: Vec<(Option<Violation>, Vec<e3::AState>, bool)> = strings
        .par_iter()
        .map(|hs| {
            let tr = e3::trace_alg21(K, omega, &hs.y);
            let spec = refmodel::hint_bit_unpack(K, omega, &hs.y);
            assert_eq!(spec.is_some(), tr.verdict == e3::Verdict::Accept, "model and spec transcription disagree");
            let got = crate::subject::guard(|| hk::hint_bit_unpack::<K>(omega as i32, &hs.y));
            let replay = json!({"engine":"kernel","kernel":"hint_bit_unpack","set":p.id,"y":hex(&hs.y),"expect_accept":spec.is_some()});
            let v = match got {
                Err(pn) => Some(Violation { key: format!("c08:hint:panic:{}", pn.0.split('@').next_back().unwrap_or("").trim()), summary: format!("ML-DSA-{} hint_bit_unpack panicked on class {}: {}", p.id, hs.class, pn.0), replay }),
                Ok(Err(_)) if spec.is_none() => None,
                Ok(Err(e)) => Some(Violation { key: "c08:hint:wellformed-rejected".into(), summary: format!("ML-DSA-{} hint section of class {} is well-formed but rejected ({e})", p.id, hs.class), replay }),
                Ok(Ok(h)) => match &spec {
                    None => Some(Violation { key: format!("c08:hint:malformed-accepted:{:?}", tr.verdict), summary: format!("ML-DSA-{} malformed hint section accepted (class {}, FIPS 204 rejects at: {:?})", p.id, hs.class, tr.verdict), replay }),
                    Some(hs_spec) => {
                        if h.iter().zip(hs_spec.iter()).any(|(a, b)| a != b) {
                            Some(Violation { key: "c08:hint:decoded-differently".into(), summary: format!("ML-DSA-{} hint section decoded to a different hint vector (class {})", p.id, hs.class), replay })
                        } else {
                            // canonical: re-encoding reproduces the bytes
                            let mut y2 = vec![0u8; omega + K];
                            match crate::subject::guard(|| hk::hint_bit_pack::<false, K>(omega as i32, &h, &mut y2)) {
                                Ok(()) if y2 == hs.y => None,
                                Ok(()) => Some(Violation { key: "c08:hint:reencode-differs".into(), summary: format!("ML-DSA-{} accepted hint section does not re-encode to itself (class {})", p.id, hs.class), replay }),
                                Err(pn) => Some(Violation { key: "c08:hint:pack-panic".into(), summary: format!("ML-DSA-{} hint_bit_pack panicked: {}", p.id, pn.0), replay }),
                            }
                        }
                    }
                },
            };
            (v, tr.states, spec.is_some())
        })
        .collect();
    let traces: Vec<Vec<e3::AState>> = res.iter().map(|r| r.1.clone()).collect();
    let states = e3::distinct_states(&traces);
    let transitions: usize = traces.iter().map(|t| t.len()).sum();
    for (hs, (v, _, acc)) in strings.iter().zip(res) {
        rep.count(&format!("hint:{}", hs.class.split(':').next_back().unwrap_or("")), 1);
        rep.nontrivial_case(fnv(&[&hs.y[..], &[K as u8]].concat()));
        rep.outcome(if acc { "hint_accept" } else { "hint_reject" }, 1);
        if let Some(v) = v {
            rep.violate(v);
        }
    }
    (states, transitions)
}

/// (b) all byte strings at reduced (K, omega)
fn c08_hint_reduced<const K: usize>(omega: usize, rep: &mut Report) {
    let n = omega + K;
    let total: u64 = 1u64 << (8 * n);
    let chunk: u64 = 1 << 16;
    let res: Vec<(u64, u64, Option<(Vec<u8>, String)>)> = (0..total / chunk)
        .into_par_iter()
        .map(|c| {
            let mut acc = 0u64;
            let mut rej = 0u64;
            let mut bad = None;
            let mut y = vec![0u8; n];
            for x in c * chunk..(c + 1) * chunk {
                for (i, b) in y.iter_mut().enumerate() {
                    *b = (x >> (8 * i)) as u8;
                }
                let spec = refmodel::hint_bit_unpack(K, omega, &y);
                let got = match crate::subject::guard(|| hk::hint_bit_unpack::<K>(omega as i32, &y)) {
                    Ok(g) => g,
                    Err(pn) => {
                        if bad.is_none() {
                            bad = Some((y.clone(), format!("panic: {}", pn.0)));
                        }
                        continue;
                    }
                };
                let ok = match (&spec, &got) {
                    (None, Err(_)) => {
                        rej += 1;
                        true
                    }
                    (Some(a), Ok(b)) => {
                        acc += 1;
                        let same = a.iter().zip(b.iter()).all(|(x, y)| x == y);
                        let mut y2 = vec![0u8; n];
                        let packed = crate::subject::guard(|| hk::hint_bit_pack::<false, K>(omega as i32, b, &mut y2)).is_ok();
                        packed && same && y2 == y
                    }
                    _ => false,
                };
                if !ok && bad.is_none() {
                    bad = Some((y.clone(), format!("spec accepts: {}, implementation accepts: {}", spec.is_some(), got.is_ok())));
                }
            }
            (acc, rej, bad)
        })
        .collect();
    let acc: u64 = res.iter().map(|r| r.0).sum();
    let rej: u64 = res.iter().map(|r| r.1).sum();
    rep.count(&format!("hint_reduced:k={K},omega={omega}:all_byte_strings"), total);
    rep.nontrivial_by_construction(total);
    rep.outcome("hint_accept", acc);
    rep.outcome("hint_reject", rej);
    for (_, _, bad) in res {
        if let Some((y, what)) = bad {
            rep.violate(Violation {
                key: format!("c08:hint-reduced:k={K},omega={omega}"),
                summary: format!("HintBitUnpack at reduced parameters k={K}, omega={omega} disagrees with Algorithm 21 on y={} ({what})", hex(&y)),
                replay: json!({"engine":"kernel","kernel":"hint_bit_unpack_reduced","k":K,"omega":omega,"y":hex(&y)}),
            });
        }
    }
}

struct PackSpec {
    name: &'static str,
    a: i32,
    b: i32,
    /// library function family: true = bit_pack/bit_unpack(a,b); false = simple_bit_pack (a = 0)
    unpack_used: bool,
}

fn pack_case(ps: &PackSpec, w: &Poly) -> Option<Violation> {
    let bits = refmodel::bitlen(i64::from(ps.a + ps.b));
    let want = if ps.a == 0 { refmodel::simple_bit_pack(w, i64::from(ps.b)) } else { refmodel::bit_pack(w, i64::from(ps.a), i64::from(ps.b)) };
    let mut out = vec![0u8; 32 * bits];
    let replay = json!({"engine":"kernel","kernel":"bit_pack","a":ps.a,"b":ps.b,"w":w.to_vec()});
    match crate::subject::guard(|| {
        if ps.a == 0 {
            hk::simple_bit_pack(w, ps.b, &mut out)
        } else {
            hk::bit_pack(w, ps.a, ps.b, &mut out)
        }
    }) {
        Err(pn) => return Some(Violation { key: format!("c08:pack:{}:panic", ps.name), summary: format!("bit_pack({}) panicked on an in-range vector: {}", ps.name, pn.0), replay }),
        Ok(()) => {
            if out != want {
                return Some(Violation { key: format!("c08:pack:{}:differs", ps.name), summary: format!("BitPack({},{}) differs from Algorithm 17 at byte {:?}", ps.a, ps.b, out.iter().zip(&want).position(|(x, y)| x != y)), replay });
            }
        }
    }
    if ps.unpack_used {
        let got = crate::subject::guard(|| if ps.a == 0 { hk::simple_bit_unpack(&out, ps.b) } else { hk::bit_unpack(&out, ps.a, ps.b) });
        match got {
            Ok(Ok(w2)) if &w2 == w => None,
            other => Some(Violation { key: format!("c08:unpack:{}:pack-unpack-not-identity", ps.name), summary: format!("BitUnpack(BitPack(w)) != w for ({},{}) : {:?}", ps.a, ps.b, other.map(|r| r.map(|_| "different vector"))), replay }),
        }
    } else {
        None
    }
}

fn unpack_case(ps: &PackSpec, v: &[u8]) -> (bool, Option<Violation>) {
    let w = if ps.a == 0 { refmodel::simple_bit_unpack(v, i64::from(ps.b)) } else { refmodel::bit_unpack(v, i64::from(ps.a), i64::from(ps.b)) };
    let in_range = w.iter().all(|&c| c >= -ps.a && c <= ps.b);
    let replay = json!({"engine":"kernel","kernel":"bit_unpack","a":ps.a,"b":ps.b,"v":hex(v)});
    let got = crate::subject::guard(|| if ps.a == 0 { hk::simple_bit_unpack(v, ps.b) } else { hk::bit_unpack(v, ps.a, ps.b) });
    let viol = match got {
        Err(pn) => Some(Violation { key: format!("c08:unpack:{}:panic", ps.name), summary: format!("bit_unpack({}) panicked: {}", ps.name, pn.0), replay }),
        Ok(Err(_)) if !in_range => None,
        Ok(Err(e)) => Some(Violation { key: format!("c08:unpack:{}:in-range-rejected", ps.name), summary: format!("BitUnpack({},{}) rejected an in-range encoding: {e}", ps.a, ps.b), replay }),
        Ok(Ok(_)) if !in_range => Some(Violation { key: format!("c08:unpack:{}:out-of-range-accepted", ps.name), summary: format!("BitUnpack({},{}) accepted an encoding of a coefficient outside [-{}, {}]: two byte strings can then be read as keys that re-serialise differently", ps.a, ps.b, ps.a, ps.b), replay }),
        Ok(Ok(w2)) => {
            if w2 != w {
                Some(Violation { key: format!("c08:unpack:{}:differs", ps.name), summary: format!("BitUnpack({},{}) differs from Algorithm 19", ps.a, ps.b), replay })
            } else {
                // pack o unpack = id on accepted strings
                let mut out = vec![0u8; v.len()];
                match crate::subject::guard(|| if ps.a == 0 { hk::simple_bit_pack(&w2, ps.b, &mut out) } else { hk::bit_pack(&w2, ps.a, ps.b, &mut out) }) {
                    Ok(()) if out == v => None,
                    _ => Some(Violation { key: format!("c08:unpack:{}:unpack-pack-not-identity", ps.name), summary: format!("BitPack(BitUnpack(v)) != v for ({},{})", ps.a, ps.b), replay }),
                }
            }
        }
    };
    (in_range, viol)
}

fn c08_bitpack(cx: &Ctx, rep: &mut Report) {
    let specs = [
        PackSpec { name: "t1(0,1023)", a: 0, b: 1023, unpack_used: true },
        PackSpec { name: "w1(0,15)", a: 0, b: 15, unpack_used: false },
        PackSpec { name: "w1(0,43)", a: 0, b: 43, unpack_used: false },
        PackSpec { name: "eta(2,2)", a: 2, b: 2, unpack_used: true },
        PackSpec { name: "eta(4,4)", a: 4, b: 4, unpack_used: true },
        PackSpec { name: "t0(4095,4096)", a: 4095, b: 4096, unpack_used: true },
        PackSpec { name: "z(2^17-1,2^17)", a: (1 << 17) - 1, b: 1 << 17, unpack_used: true },
        PackSpec { name: "z(2^19-1,2^19)", a: (1 << 19) - 1, b: 1 << 19, unpack_used: true },
    ];
    for ps in &specs {
        let bits = refmodel::bitlen(i64::from(ps.a + ps.b));
        let span = ps.a + ps.b + 1; // number of in-range values
        // ---- pack side: one-hot (position x value alphabet) on three backgrounds, adjacent pairs over the alphabet
        let mut alpha_vals: Vec<i32> = vec![-ps.a, -ps.a + 1, -1, 0, 1, ps.b - 1, ps.b];
        let mut pw = 1;
        while pw <= ps.b {
            alpha_vals.push(pw);
            if pw <= ps.a {
                alpha_vals.push(-pw);
            }
            pw *= 2;
        }
        alpha_vals.retain(|&v| v >= -ps.a && v <= ps.b);
        alpha_vals.sort_unstable();
        alpha_vals.dedup();
        let full_vals: Vec<i32> = if span <= 8192 { (-ps.a..=ps.b).collect() } else { alpha_vals.clone() };
        let mut polys: Vec<Poly> = Vec::new();
        for bg in [0, -ps.a, ps.b] {
            for pos in 0..256 {
                let vals = if pos < 9 || pos > 246 || cx.tier == Tier::Thorough { &full_vals } else { &alpha_vals };
                for &v in vals {
                    polys.push(poly_from(&[(pos, v)], bg));
                }
            }
        }
        for pos in 0..255 {
            for &v1 in &alpha_vals {
                for &v2 in &alpha_vals {
                    polys.push(poly_from(&[(pos, v1), (pos + 1, v2)], 0));
                }
            }
        }
        // dense: marker pattern (each index carries a distinct in-range value)
        polys.push(core::array::from_fn(|i| -ps.a + ((i as i32 * 7 + 3) % span)));
        polys.push(core::array::from_fn(|i| ps.b - ((i as i32 * 13 + 1) % span)));
        let viol: Vec<Violation> = polys.par_iter().filter_map(|w| pack_case(ps, w)).collect();
        rep.count(&format!("pack:{}", ps.name), polys.len() as u64);
        rep.nontrivial_by_construction(polys.len() as u64);
        for v in viol {
            rep.violate(v);
        }
        // ---- unpack side: complete byte windows for narrow fields, field-level one-hot for wide fields
        if ps.unpack_used {
            let nbytes = 32 * bits;
            let mut total = 0u64;
            let mut accepted = 0u64;
            let mut viols: Vec<Violation> = Vec::new();
            if bits <= 4 {
                // one period = lcm(bits,8) bits; all byte windows of one period at each chosen offset
                let period_bytes = if bits == 3 { 3 } else { 1 };
                let nwin: u64 = 1 << (8 * period_bytes);
                let offsets: Vec<usize> = match cx.tier {
                    Tier::Quick => if bits == 3 { vec![nbytes - period_bytes] } else { vec![0, nbytes - period_bytes] },
                    Tier::Thorough => (0..nbytes / period_bytes).step_by(if bits == 3 { 4 } else { 1 }).map(|o| o * period_bytes).collect(),
                };
                // background: valid encoding of the all-zero polynomial
                let bgv = refmodel::bit_pack(&POLY0, i64::from(ps.a), i64::from(ps.b));
                for &off in &offsets {
                    let (acc, vs): (u64, Vec<Violation>) = (0..nwin)
                        .into_par_iter()
                        .fold(
                            || (0u64, Vec::new()),
                            |mut st, x| {
                                let mut v = bgv.clone();
                                for i in 0..period_bytes {
                                    v[off + i] = (x >> (8 * i)) as u8;
                                }
                                let (ok, viol) = unpack_case(ps, &v);
                                st.0 += u64::from(ok);
                                if let Some(vv) = viol {
                                    if st.1.len() < 4 {
                                        st.1.push(vv);
                                    }
                                }
                                st
                            },
                        )
                        .reduce(|| (0u64, Vec::new()), |mut a, mut b| {
                            a.0 += b.0;
                            a.1.append(&mut b.1);
                            a
                        });
                    total += nwin;
                    accepted += acc;
                    viols.extend(vs);
                }
            } else {
                // every field position x field-value alphabet (all values for <= 13 bits at the edge positions)
                let maxf: u32 = (1u32 << bits) - 1;
                let mut fvals: Vec<u32> = vec![0, 1, 2, maxf - 1, maxf, maxf / 2, maxf / 2 + 1];
                let mut pw = 1u32;
                while pw <= maxf {
                    fvals.push(pw);
                    fvals.push(pw - 1);
                    pw <<= 1;
                }
                fvals.sort_unstable();
                fvals.dedup();
                let bgv = refmodel::bit_pack(&POLY0, i64::from(ps.a), i64::from(ps.b));
                let mut cases: Vec<(usize, u32, Option<u32>)> = Vec::new();
                for pos in 0..256 {
                    let vals: Vec<u32> = if bits <= 13 && (pos < 9 || pos > 246 || cx.tier == Tier::Thorough) { (0..=maxf).collect() } else { fvals.clone() };
                    for v in vals {
                        cases.push((pos, v, None));
                    }
                    if pos < 255 {
                        for &v1 in &fvals {
                            for &v2 in fvals.iter().step_by(3) {
                                cases.push((pos, v1, Some(v2)));
                            }
                        }
                    }
                }
                let r: Vec<(bool, Option<Violation>)> = cases
                    .par_iter()
                    .map(|&(pos, v1, v2)| {
                        let mut v = bgv.clone();
                        crate::checks_a::set_field(&mut v, pos * bits, bits, v1);
                        if let Some(v2) = v2 {
                            crate::checks_a::set_field(&mut v, (pos + 1) * bits, bits, v2);
                        }
                        unpack_case(ps, &v)
                    })
                    .collect();
                total += cases.len() as u64;
                accepted += r.iter().filter(|x| x.0).count() as u64;
                viols.extend(r.into_iter().filter_map(|x| x.1));
            }
            rep.count(&format!("unpack:{}", ps.name), total);
            rep.nontrivial_by_construction(total);
            rep.outcome("unpack_in_range", accepted);
            rep.outcome("unpack_out_of_range", total - accepted);
            for v in viols {
                rep.violate(v);
            }
        }
    }
}

/// (d) sigDecode/sigEncode and pk/sk codec layout with marker values
fn c08_codecs<const K: usize, const L: usize, const LD4: usize, const SIG_LEN: usize, const PK_LEN: usize, const SK_LEN: usize>(p: &'static Params, cx: &Ctx, rep: &mut Report) {
    let g1 = p.gamma1 as i32;
    // signatures assembled from hint strings x z patterns x c_tilde patterns
    let strings: Vec<e3::HintStr> = e3::structured_strings(K, p.omega, 1).into_iter().chain(e3::heavy_strings(K, p.omega)).collect();
    let zpats: Vec<Vec<Poly>> = vec![
        vec![POLY0; L],
        (0..L).map(|j| core::array::from_fn(|i| ((j * 256 + i) as i32 * 97) % (2 * g1) - (g1 - 1))).collect(), // marker: distinct values per index
        vec![[g1; 256]; L],
        vec![[-(g1 - 1); 256]; L],
    ];
    let cpats: Vec<Vec<u8>> = vec![vec![0u8; LD4], vec![0xFF; LD4], (0..LD4).map(|i| i as u8).collect()];
    let mut cases: Vec<Vec<u8>> = Vec::new();
    for (si, hs) in strings.iter().enumerate() {
        let zi = si % zpats.len();
        let ci = si % cpats.len();
        let mut s = cpats[ci].clone();
        for j in 0..L {
            s.extend(refmodel::bit_pack(&zpats[zi][j], i64::from(g1 - 1), i64::from(g1)));
        }
        s.extend_from_slice(&hs.y);
        cases.push(s);
    }
    let viol: Vec<Violation> = cases
        .par_iter()
        .filter_map(|s| {
            let arr: [u8; SIG_LEN] = s.as_slice().try_into().unwrap();
            let (c_ref, z_ref, h_ref) = refmodel::sig_decode(p, s);
            let replay = json!({"engine":"kernel","kernel":"sig_decode","set":p.id,"sig":hex(s)});
            match crate::subject::guard(|| hk::sig_decode::<K, L, LD4, SIG_LEN>(g1, p.omega as i32, &arr)) {
                Err(pn) => Some(Violation { key: "c08:sig_decode:panic".into(), summary: format!("ML-DSA-{} sig_decode panicked: {}", p.id, pn.0), replay }),
                Ok(Err(_)) | Ok(Ok((_, _, None))) => {
                    if h_ref.is_none() {
                        None
                    } else {
                        Some(Violation { key: "c08:sig_decode:wellformed-rejected".into(), summary: format!("ML-DSA-{} sig_decode rejected a well-formed signature encoding", p.id), replay })
                    }
                }
                Ok(Ok((c, z, Some(h)))) => {
                    let Some(h_ref) = h_ref else {
                        return Some(Violation { key: "c08:sig_decode:malformed-accepted".into(), summary: format!("ML-DSA-{} sig_decode accepted a signature whose hint section FIPS 204 rejects", p.id), replay });
                    };
                    if c.to_vec() != c_ref || z.iter().zip(&z_ref).any(|(a, b)| a != b) || h.iter().zip(&h_ref).any(|(a, b)| a != b) {
                        return Some(Violation { key: "c08:sig_decode:differs".into(), summary: format!("ML-DSA-{} sig_decode output differs from Algorithm 27 (field offset error?)", p.id), replay });
                    }
                    match crate::subject::guard(|| hk::sig_encode::<false, K, L, LD4, SIG_LEN>(g1, p.omega as i32, &c, &z, &h)) {
                        Ok(s2) if s2.to_vec() == *s => None,
                        Ok(_) => Some(Violation { key: "c08:sig:reencode-differs".into(), summary: format!("ML-DSA-{} sigEncode(sigDecode(sigma)) != sigma for an accepted signature", p.id), replay }),
                        Err(pn) => Some(Violation { key: "c08:sig_encode:panic".into(), summary: format!("ML-DSA-{} sig_encode panicked on decoded data: {}", p.id, pn.0), replay }),
                    }
                }
            }
        })
        .collect();
    rep.count(&format!("sig_codec:mldsa{}", p.id), cases.len() as u64);
    rep.nontrivial_by_construction(cases.len() as u64);
    for v in viol {
        rep.violate(v);
    }
    // pk / sk codecs with marker values: every coefficient index carries a distinct value
    let t1: Vec<Poly> = (0..K).map(|k| core::array::from_fn(|i| ((k * 256 + i) as i32 * 37 + 5) % 1024)).collect();
    let rho: [u8; 32] = core::array::from_fn(|i| i as u8 + 1);
    let pk_ref = refmodel::pk_encode(p, &rho, &t1);
    let t1a: [Poly; K] = core::array::from_fn(|k| t1[k]);
    rep.count("pk_codec", 2);
    match crate::subject::guard(|| hk::pk_encode::<K, PK_LEN>(&rho, &t1a)) {
        Ok(b) if b.to_vec() == pk_ref => {}
        other => rep.violate(Violation { key: "c08:pk_encode:differs".into(), summary: format!("ML-DSA-{} pk_encode differs from Algorithm 22: {:?}", p.id, other.err()), replay: json!({"engine":"kernel","kernel":"pk_encode","set":p.id}) }),
    }
    let pk_arr: [u8; PK_LEN] = pk_ref.as_slice().try_into().unwrap();
    match crate::subject::guard(|| hk::pk_decode::<K, PK_LEN>(&pk_arr)) {
        Ok(Ok((r, t))) if r == rho && t == t1a => {}
        other => rep.violate(Violation { key: "c08:pk_decode:differs".into(), summary: format!("ML-DSA-{} pk_decode differs from Algorithm 23: ok={}", p.id, other.is_ok()), replay: json!({"engine":"kernel","kernel":"pk_decode","set":p.id}) }),
    }
    let eta = p.eta as i32;
    let s1: Vec<Poly> = (0..L).map(|l| core::array::from_fn(|i| ((l * 256 + i) as i32 * 3 + 1) % (2 * eta + 1) - eta)).collect();
    let s2: Vec<Poly> = (0..K).map(|k| core::array::from_fn(|i| ((k * 256 + i) as i32 * 5 + 2) % (2 * eta + 1) - eta)).collect();
    let t0: Vec<Poly> = (0..K).map(|k| core::array::from_fn(|i| ((k * 256 + i) as i32 * 41 + 7) % 8192 - 4095)).collect();
    let key: [u8; 32] = core::array::from_fn(|i| 0x80 + i as u8);
    let tr: [u8; 64] = core::array::from_fn(|i| 0x40 + i as u8);
    let sk_ref = refmodel::sk_encode(p, &rho, &key, &tr, &s1, &s2, &t0);
    let (s1a, s2a, t0a): ([Poly; L], [Poly; K], [Poly; K]) = (core::array::from_fn(|i| s1[i]), core::array::from_fn(|i| s2[i]), core::array::from_fn(|i| t0[i]));
    rep.count("sk_codec", 2);
    match crate::subject::guard(|| hk::sk_encode::<K, L, SK_LEN>(eta, &rho, &key, &tr, &s1a, &s2a, &t0a)) {
        Ok(b) if b.to_vec() == sk_ref => {}
        other => rep.violate(Violation { key: "c08:sk_encode:differs".into(), summary: format!("ML-DSA-{} sk_encode differs from Algorithm 24: {:?}", p.id, other.err()), replay: json!({"engine":"kernel","kernel":"sk_encode","set":p.id}) }),
    }
    let sk_arr: [u8; SK_LEN] = sk_ref.as_slice().try_into().unwrap();
    match crate::subject::guard(|| hk::sk_decode::<K, L, SK_LEN>(eta, &sk_arr)) {
        Ok(Ok((r, k2, tr2, a, b, c))) if r == rho && k2 == key && tr2 == tr && a == s1a && b == s2a && c == t0a => {}
        other => rep.violate(Violation { key: "c08:sk_decode:differs".into(), summary: format!("ML-DSA-{} sk_decode differs from Algorithm 25: ok={}", p.id, other.is_ok()), replay: json!({"engine":"kernel","kernel":"sk_decode","set":p.id}) }),
    }
    // w1Encode layout
    let m = ((refmodel::Q - 1) / (2 * p.gamma2)) as i32;
    let w1: Vec<Poly> = (0..K).map(|k| core::array::from_fn(|i| ((k * 256 + i) as i32 * 7 + 1) % m)).collect();
    let w1a: [Poly; K] = core::array::from_fn(|k| w1[k]);
    let want = refmodel::w1_encode(p, &w1);
    let mut out = vec![0u8; want.len()];
    rep.count("w1_codec", 1);
    match crate::subject::guard(|| hk::w1_encode::<K>(p.gamma2 as i32, &w1a, &mut out)) {
        Ok(()) if out == want => {}
        other => rep.violate(Violation { key: "c08:w1_encode:differs".into(), summary: format!("ML-DSA-{} w1_encode differs from Algorithm 28: {:?}", p.id, other.err()), replay: json!({"engine":"kernel","kernel":"w1_encode","set":p.id}) }),
    }
    rep.nontrivial_by_construction(5);
    let _ = cx;
}

pub fn c08(cx: &Ctx, rep: &mut Report) {
    rep.rule = "(a) E3: Algorithm 21 as a transition system; every path with <= N hints (all compositions over k polynomials x index bytes from {0,1,128,255} x padding choice x every count-byte deviation) and the weight omega-1/omega families are concretised at the real (k, omega) and replayed on hint_bit_unpack: verdict and hint vector must equal the model's, accepted strings must re-encode to themselves; (b) ALL byte strings at reduced (k, omega); (c) BitPack/BitUnpack for every (a,b) the library uses: complete byte windows for 3/4-bit fields, field one-hot x all values (<= 13 bit) and alphabet pairs for wider fields, against Algorithms 16-19, both compositions = identity, out-of-range => Err; (d) sigDecode/sigEncode, pk/sk/w1 codecs with marker values. Every case is distinct; all are non-trivial (structure-aware boundary / malformed strings).".into();
    let max_hints = cx.tier.pick(2, 3);
    let mut states = 0;
    let mut transitions = 0;
    for api in APIS {
        let p = api.p;
        let strings: Vec<e3::HintStr> = e3::structured_strings(p.k, p.omega, max_hints).into_iter().chain(e3::heavy_strings(p.k, p.omega)).collect();
        let (s, t) = match p.id {
            44 => c08_hint_real::<4>(p, &strings, rep),
            65 => c08_hint_real::<6>(p, &strings, rep),
            _ => c08_hint_real::<8>(p, &strings, rep),
        };
        states += s;
        transitions += t;
        if let Some(hs) = strings.iter().find(|h| h.class.contains("repeated")) {
            rep.sample(json!({"set": p.id, "class": hs.class, "y": hex(&hs.y), "model_verdict": format!("{:?}", e3::trace_alg21(p.k, p.omega, &hs.y).verdict)}));
        }
        match p.id {
            44 => c08_codecs::<4, 4, 32, 2420, 1312, 2560>(p, cx, rep),
            65 => c08_codecs::<6, 5, 48, 3309, 1952, 4032>(p, cx, rep),
            _ => c08_codecs::<8, 7, 64, 4627, 2592, 4896>(p, cx, rep),
        }
    }
    rep.extra.insert("states".into(), json!(states));
    rep.extra.insert("transitions".into(), json!(transitions));
    c08_hint_reduced::<1>(1, rep);
    c08_hint_reduced::<1>(2, rep);
    if cx.tier == Tier::Thorough {
        c08_hint_reduced::<2>(1, rep);
        c08_hint_reduced::<2>(2, rep);
        c08_hint_reduced::<1>(3, rep);
    }
    c08_bitpack(cx, rep);
    rep.extra.insert("traces_validated_against_impl".into(), json!(rep.evaluations));
    for need in ["hint_accept", "hint_reject", "unpack_out_of_range"] {
        if rep.outcomes.get(need).copied().unwrap_or(0) == 0 && rep.violations_total == 0 {
            rep.machinery(format!("no '{need}' outcome observed"));
        }
    }
}
