//! Scripted RNG: every `try_fill_bytes` request is answered from a script; the infallible methods are
//! booby-trapped (panic), so any use of the infallible interface is observed.

use rand_core::{CryptoRng, Error, RngCore};

#[derive(Clone, Debug, PartialEq, Eq)]
pub enum Answer {
    /// fill the whole buffer from these bytes (cycled if shorter) and return Ok
    Ok(Vec<u8>),
    /// return Err without touching the buffer
    ErrBefore,
    /// write the first n bytes from `bytes`, then return Err
    ErrAfter(usize, Vec<u8>),
}

pub struct ScriptRng {
    pub script: Vec<Answer>,
    pub pos: usize,
    /// lengths of all requests made so far
    pub log: Vec<usize>,
    /// request made with no script entry left
    pub exhausted: bool,
    /// error code reported by failing answers (OS-style codes below 2^31, e.g. 4 = EINTR, 11 = EAGAIN, or a custom code)
    pub err_code: u32,
}

impl ScriptRng {
    pub fn new(script: Vec<Answer>) -> Self { ScriptRng { script, pos: 0, log: Vec::new(), exhausted: false, err_code: Error::CUSTOM_START + 2 } }
    pub fn ok(bytes: &[u8]) -> Self { Self::new(vec![Answer::Ok(bytes.to_vec())]) }
    pub fn oks(list: &[&[u8]]) -> Self { Self::new(list.iter().map(|b| Answer::Ok(b.to_vec())).collect()) }
}

pub const INFALLIBLE_MSG: &str = "HARNESS: infallible RNG interface used";

impl RngCore for ScriptRng {
    fn next_u32(&mut self) -> u32 { panic!("{INFALLIBLE_MSG} (next_u32)") }
    fn next_u64(&mut self) -> u64 { panic!("{INFALLIBLE_MSG} (next_u64)") }
    fn fill_bytes(&mut self, _dest: &mut [u8]) { panic!("{INFALLIBLE_MSG} (fill_bytes)") }
    fn try_fill_bytes(&mut self, dest: &mut [u8]) -> Result<(), Error> {
        self.log.push(dest.len());
        let Some(ans) = self.script.get(self.pos).cloned() else {
            self.exhausted = true;
            return Err(Error::from(core::num::NonZeroU32::new(Error::CUSTOM_START + 1).unwrap()));
        };
        self.pos += 1;
        match ans {
            Answer::Ok(bytes) => {
                for (i, d) in dest.iter_mut().enumerate() {
                    *d = bytes[i % bytes.len()];
                }
                Ok(())
            }
            Answer::ErrBefore => Err(Error::from(core::num::NonZeroU32::new(self.err_code).unwrap())),
            Answer::ErrAfter(n, bytes) => {
                for (i, d) in dest.iter_mut().enumerate().take(n) {
                    *d = bytes[i % bytes.len()];
                }
                Err(Error::from(core::num::NonZeroU32::new(self.err_code).unwrap()))
            }
        }
    }
}
impl CryptoRng for ScriptRng {}
