//! C01, C03, C04, C09, C10, C11: key lifecycle and differential checks against the reference model.

use crate::alpha::{self, Probe};
use crate::e1::{self, E1Cfg, Oracles};
use crate::report::{fnv, Report, Tier, Violation};
use crate::rng::ScriptRng;
use crate::subject::{SetApi, APIS};
use crate::Ctx;
use rayon::prelude::*;
use refmodel::{hex, Mode, Params, PkCtx, SkCtx, EXTERNAL_MODES};
use serde_json::json;

fn e1_evidence(rep: &mut Report, results: &[(u32, e1::E1Result, Option<(usize, bool)>)]) {
    let states: usize = results.iter().map(|r| r.1.states).sum();
    let transitions: usize = results.iter().map(|r| r.1.transitions).sum();
    let probes: u64 = results.iter().map(|r| r.1.probes_run).sum();
    rep.extra.insert("states".into(), json!(states));
    rep.extra.insert("transitions".into(), json!(transitions));
    rep.extra.insert("traces_validated_against_impl".into(), json!(probes));
    rep.extra.insert(
        "e1_per_set".into(),
        json!(results
            .iter()
            .map(|(id, r, sr)| json!({"set": id, "initial_states": r.init_states, "states": r.states, "transitions": r.transitions,
                "states_per_depth": r.per_depth, "probe_executions": r.probes_run,
                "stateright_bfs": sr.map(|(n, closes)| json!({"unique_states": n, "graph_closes": closes}))}))
            .collect::<Vec<_>>()),
    );
}

fn run_e1_all(cx: &Ctx, rep: &mut Report, oracles: Oracles, probes: &[Probe], depth: usize, history: bool, with_sr: bool) {
    run_e1_seeds(cx, rep, oracles, probes, depth, history, with_sr, true)
}

#[allow(clippy::too_many_arguments)]
fn run_e1_seeds(cx: &Ctx, rep: &mut Report, oracles: Oracles, probes: &[Probe], depth: usize, history: bool, with_sr: bool, rare_seeds: bool) {
    let base_seeds = alpha::seeds(cx.tier, cx.seed);
    let mut results = Vec::new();
    for api in APIS {
        // model-selected seeds whose t = A s1 + s2 wraps around q join the seed alphabet
        let mut seeds = base_seeds.clone();
        if rare_seeds {
            seeds.extend(rare_keygen_seeds(api.p, cx.seed, rare_cap(cx.tier)).into_iter().map(|(_, s)| s));
        }
        let cfg = E1Cfg { depth, seeds: seeds.clone(), oracles, probes, history_check: history, full_probe_seeds: base_seeds.len() };
        let r = e1::run(api, &cfg, rep);
        // stateright cross-check of the state graph (same transition function, independent explorer)
        let sr = if with_sr {
            let inits: Vec<e1::KState> = seeds.iter().filter_map(|xi| e1::init_state(api, xi, e1::Init::Seed).ok()).collect();
            let mut uniq = inits.clone();
            uniq.dedup();
            let (n, closes) = e1::sr::explore(api, uniq, depth);
            if n != r.states && rep.violations_total == 0 {
                rep.machinery(format!("stateright explored {n} states, hand-rolled BFS {} (ML-DSA-{})", r.states, api.p.id));
            }
            Some((n, closes))
        } else {
            None
        };
        if r.states < r.init_states || r.init_states == 0 {
            rep.machinery(format!("E1 ended with {} states from {} initial keys", r.states, r.init_states));
        }
        rep.count(&format!("e1_transitions_mldsa{}", api.p.id), r.transitions as u64);
        rep.count(&format!("e1_probes_mldsa{}", api.p.id), r.probes_run);
        results.push((api.p.id, r, sr));
    }
    e1_evidence(rep, &results);
}

// ------------------------------------------------------------------------------------------------ C01

/// hard-case classes for honest signatures, selected by the reference signer
#[derive(Clone, Debug)]
pub struct HardCase {
    pub class: String,
    pub msg: Vec<u8>,
    pub rnd: [u8; 32],
}

/// Enumerate counter messages with the reference signer until every class has a member (or cap).
pub fn hard_cases(p: &'static Params, skc: &SkCtx, cap: usize) -> (Vec<HardCase>, Vec<String>) {
    let classes = ["iterations>=10", "hint_weight=omega", "hint_weight=omega-1", "z_norm=gamma1-beta-1", "r0_norm=gamma2-beta-1", "w_corner", "late_rejection(ct0/weight)", "hint_weight>=omega-3", "rejected_exactly_at:z_norm==gamma1-beta", "rejected_exactly_at:r0_norm==gamma2-beta", "rejected_exactly_at:hint_weight==omega+1"];
    let mut found: Vec<Option<HardCase>> = vec![None; classes.len()];
    let chunk = 256;
    let mut base = 0usize;
    while base < cap && found.iter().any(|f| f.is_none()) {
        let infos: Vec<(usize, refmodel::SignInfo)> = (base..base + chunk)
            .into_par_iter()
            .map(|i| {
                let m = format!("hard-case-search-{i}").into_bytes();
                let mp = refmodel::format_message(Mode::Pure, &m, b"").unwrap();
                (i, refmodel::sign_internal_ctx(skc, &mp, &[0u8; 32], &refmodel::SignOpts::default()).1)
            })
            .collect();
        for (i, info) in infos {
            let hits = [
                info.iterations >= 10,
                info.hint_weight == p.omega,
                info.hint_weight == p.omega - 1,
                info.z_norm == p.gamma1 - p.beta - 1,
                info.r0_norm == p.gamma2 - p.beta - 1,
                info.w_corner,
                info.rejects.iter().any(|r| matches!(r, refmodel::Reject::Ct0Norm | refmodel::Reject::HintWeight)),
                info.hint_weight + 3 >= p.omega,
                info.boundary_rejections.contains(&"z_norm==gamma1-beta"),
                info.boundary_rejections.contains(&"r0_norm==gamma2-beta"),
                info.boundary_rejections.contains(&"hint_weight==omega+1"),
            ];
            for (ci, hit) in hits.iter().enumerate() {
                if *hit && found[ci].is_none() {
                    found[ci] = Some(HardCase { class: classes[ci].to_string(), msg: format!("hard-case-search-{i}").into_bytes(), rnd: [0u8; 32] });
                }
            }
        }
        base += chunk;
    }
    let uncovered = classes.iter().zip(found.iter()).filter(|(_, f)| f.is_none()).map(|(c, _)| c.to_string()).collect();
    (found.into_iter().flatten().collect(), uncovered)
}

pub fn c01(cx: &Ctx, rep: &mut Report) {
    rep.rule = "E1: BFS over key-provenance paths (keygen_from_seed / try_keygen_with_rng, then SkRoundTrip, PkRoundTrip, Derive, CloneSk, ClonePk to the depth bound); in every distinct state (raw struct bytes) the whole probe alphabet MSG x CTX x 4 modes x RND is signed and verified; plus model-selected hard cases (reference signer picks messages with >=10 iterations, hint weight = omega, norms one below the bound). Non-trivial = probe with non-default message/context shape (anything but 8-byte message and empty context) or a hard case; counted per distinct (state, probe).".into();
    let probes = alpha::probes(cx.tier, cx.seed, &EXTERNAL_MODES);
    let depth = cx.tier.pick(3, 5);
    run_e1_all(cx, rep, Oracles { c01: true, ..Default::default() }, &probes, depth, false, true);
    let nt = probes.iter().filter(|p| !(p.msg.len() == 8 && p.ctx.is_empty())).count() as u64;
    rep.nontrivial_by_construction(nt * 3 * alpha::seeds(cx.tier, cx.seed).len() as u64);
    for pr in probes.iter().step_by(probes.len() / 4 + 1) {
        rep.sample(pr.json());
    }

    // hard cases: provenance x class, signed by the implementation, verified by the implementation
    let cap = cx.tier.pick(3_000, 200_000);
    for api in APIS {
        let p = api.p;
        let xi = alpha::counter32(cx.seed, "seed", 0);
        let kg = refmodel::keygen_internal(p, &xi);
        let skc = SkCtx::new(p, &kg.sk);
        let (cases, uncovered) = hard_cases(p, &skc, cap);
        rep.extra.insert(format!("hard_case_classes_uncovered_mldsa{}", p.id), json!(uncovered));
        if !uncovered.is_empty() {
            rep.caps_hit.push(format!("hard-case search cap {cap} (ML-DSA-{}): classes {uncovered:?} not reached", p.id));
        }
        let Ok((pk_gen, sk_gen)) = (api.keygen_seed)(&xi) else {
            continue; // reported by E1
        };
        // provenances of the two keys
        let sk_rt = sk_gen.to_bytes().ok().and_then(|b| (api.sk_from_bytes)(&b).ok().and_then(|r| r.ok()));
        let pk_rt = pk_gen.to_bytes().ok().and_then(|b| (api.pk_from_bytes)(&b).ok().and_then(|r| r.ok()));
        let pk_der = sk_gen.derive_pk().ok();
        let sks: Vec<(&str, &dyn crate::subject::SkOps)> =
            [("generated", Some(sk_gen.as_ref())), ("round-tripped", sk_rt.as_deref())].into_iter().filter_map(|(n, s)| s.map(|s| (n, s))).collect();
        let pks: Vec<(&str, &dyn crate::subject::PkOps)> = [("generated", Some(pk_gen.as_ref())), ("round-tripped", pk_rt.as_deref()), ("derived", pk_der.as_deref())]
            .into_iter()
            .filter_map(|(n, s)| s.map(|s| (n, s)))
            .collect();
        for hc in &cases {
            for mode in EXTERNAL_MODES {
                // the class was selected for pure mode with empty ctx; other modes are ordinary extra probes
                let pr = Probe { mode, msg: hc.msg.clone(), ctx: vec![], rnd: hc.rnd };
                for (sn, sk) in &sks {
                    let mut rng = ScriptRng::ok(&pr.rnd);
                    let sig = match sk.sign(mode, &mut rng, &pr.msg, &pr.ctx) {
                        Ok(Ok(s)) => s,
                        other => {
                            rep.violate(Violation {
                                key: "c01:hard:sign-failed".into(),
                                summary: format!("ML-DSA-{} hard case {} ({sn} sk): signing failed: {:?}", p.id, hc.class, other.err().map(|p| p.0)),
                                replay: json!({"engine":"api","set":p.id,"ops":[{"op":"keygen_seed","seed":hex(&xi)},{"op":"sign","probe":pr.json_full()}]}),
                            });
                            continue;
                        }
                    };
                    for (pn, pk) in &pks {
                        rep.count(&format!("hard:{}", hc.class), 1);
                        if mode == Mode::Pure {
                            rep.nontrivial_case(fnv(format!("{}{}{}{}", p.id, hc.class, sn, pn).as_bytes()));
                        }
                        match pk.verify(mode, &pr.msg, &sig, &pr.ctx) {
                            Ok(true) => rep.outcome("hard_case_verified", 1),
                            r => rep.violate(Violation {
                                key: format!("c01:hard:{}:rejected", hc.class),
                                summary: format!("ML-DSA-{} honest signature of hard case '{}' ({sn} sk, {pn} pk, mode {mode:?}) not accepted: {r:?}", p.id, hc.class),
                                replay: json!({"engine":"api","set":p.id,"ops":[{"op":"keygen_seed","seed":hex(&xi)},{"op":"sign_verify","sk":sn,"pk":pn,"probe":pr.json_full()}]}),
                            }),
                        }
                    }
                }
            }
        }
        rep.sample(json!({"hard_cases_mldsa": p.id, "classes": cases.iter().map(|c| c.class.clone()).collect::<Vec<_>>(),
            "example": cases.first().map(|c| String::from_utf8_lossy(&c.msg).to_string())}));
    }
}

// ------------------------------------------------------------------------------------------------ C03

pub fn c03(cx: &Ctx, rep: &mut Report) {
    rep.rule = "byte equality of signatures with reference Sign over sets x sk source {generated (E1 states, incl. every round-trip/clone path), imported valid extremal encodings} x MSG x CTX(<=255) x 5 entry points x RND; history independence (battery replayed in reverse after interleaving other calls); one 32-byte RNG request per call. Non-trivial = HashML-DSA or internal mode, or non-empty context, or extremal imported key (the suite pins one pure-mode signature with empty context).".into();
    let probes = alpha::probes(cx.tier, cx.seed, &refmodel::ALL_MODES);
    let depth = cx.tier.pick(2, 4);
    // the key-generation corner seeds matter for keygen / derivation (C01, C04, C09, C11), not for the signing function of a fixed key
    run_e1_seeds(cx, rep, Oracles { c03: true, ..Default::default() }, &probes, depth, true, false, cx.tier == Tier::Thorough);
    let nt = probes.iter().filter(|p| p.mode != Mode::Pure || !p.ctx.is_empty()).count() as u64;
    rep.nontrivial_by_construction(nt * 3 * alpha::seeds(cx.tier, cx.seed).len() as u64);
    for pr in probes.iter().step_by(probes.len() / 3 + 1) {
        rep.sample(pr.json());
    }

    // imported extremal (valid) keys
    let small = alpha::probes_small(cx.seed, &refmodel::ALL_MODES);
    let plist: Vec<&Probe> = match cx.tier {
        Tier::Quick => small.iter().collect(),
        Tier::Thorough => probes.iter().step_by(3).collect(),
    };
    for api in APIS {
        let p = api.p;
        let base = refmodel::keygen_internal(p, &alpha::counter32(cx.seed, "seed", 1));
        for (name, skb) in alpha::sk_shapes(p, &base) {
            let sk = match (api.sk_from_bytes)(&skb) {
                Ok(Ok(s)) => s,
                other => {
                    rep.violate(Violation {
                        key: format!("c03:import:{name}:rejected"),
                        summary: format!("ML-DSA-{}: valid private key shape '{name}' not accepted: {:?}", p.id, other.err().map(|p| p.0)),
                        replay: json!({"engine":"api","set":p.id,"ops":[{"op":"sk_from_bytes","sk":hex(&skb)}]}),
                    });
                    continue;
                }
            };
            let skc = SkCtx::new(p, &skb);
            let res: Vec<Option<Violation>> = plist
                .par_iter()
                .map(|pr| {
                    let mut rng = ScriptRng::ok(&pr.rnd);
                    let got = sk.sign(pr.mode, &mut rng, &pr.msg, &pr.ctx);
                    let want = refmodel::sign(&skc, pr.mode, &pr.msg, &pr.ctx, &pr.rnd).unwrap();
                    let replay = json!({"engine":"api","set":p.id,"ops":[{"op":"sk_from_bytes","sk":hex(&skb)},{"op":"sign","probe":pr.json_full(),"expect":hex(&want)}]});
                    match got {
                        Ok(Ok(s)) if s == want && rng.log == [32] => None,
                        Ok(Ok(s)) if s != want => Some(Violation {
                            key: format!("c03:import:{name}:sig-differs:{:?}", pr.mode),
                            summary: format!("ML-DSA-{} key shape '{name}' mode {:?}: signature differs from reference at byte {:?}", p.id, pr.mode, s.iter().zip(&want).position(|(a, b)| a != b)),
                            replay,
                        }),
                        Ok(Ok(_)) => Some(Violation { key: "c03:import:rng-log".into(), summary: format!("RNG requests {:?}", rng.log), replay }),
                        Ok(Err(e)) => Some(Violation { key: format!("c03:import:{name}:sign-err"), summary: format!("ML-DSA-{} key shape '{name}': sign returned Err({e})", p.id), replay }),
                        Err(pn) => Some(Violation {
                            key: format!("c03:import:panic:{}", pn.0.split('@').next_back().unwrap_or("").trim()),
                            summary: format!("ML-DSA-{} key shape '{name}': panic while signing: {}", p.id, pn.0),
                            replay,
                        }),
                    }
                })
                .collect();
            rep.count(&format!("import:{name}"), res.len() as u64);
            rep.nontrivial_by_construction(if name == "generated" { 0 } else { res.len() as u64 });
            for v in res.into_iter().flatten() {
                rep.violate(v);
            }
        }
    }
    // model-guided: signing attempts whose ExpandMask counter kappa + r reaches 256 (and, thorough, 512). An honest
    // key needs ~50 consecutive rejections for that; the valid key with every t0 coefficient = 2^12 rejects ~94% of
    // attempts, so the reference finds such a message among a few dozen counter messages.
    for api in APIS {
        let p = api.p;
        let base = refmodel::keygen_internal(p, &alpha::counter32(cx.seed, "seed", 1));
        let skb = alpha::sk_shapes(p, &base).into_iter().find(|(n, _)| n == "t0_all_max").unwrap().1;
        let skc = SkCtx::new(p, &skb);
        let targets: Vec<usize> = cx.tier.pick(vec![256], vec![256, 512]);
        let cap = cx.tier.pick(400usize, 4000);
        let infos: Vec<(usize, usize)> = (0..cap)
            .into_par_iter()
            .map(|i| {
                let m = format!("kappa-search-{i}").into_bytes();
                let mp = refmodel::format_message(Mode::Pure, &m, b"").unwrap();
                (i, refmodel::sign_internal_ctx(&skc, &mp, &[0u8; 32], &refmodel::SignOpts { max_iters: 700, ..Default::default() }).1.kappa_final)
            })
            .collect();
        let Ok(Ok(sk)) = (api.sk_from_bytes)(&skb) else { continue };
        for t in targets {
            // kappa_final = l * iterations; the accepted attempt used counters kappa_final - l .. kappa_final - 1
            match infos.iter().find(|(_, k)| *k >= t + p.l) {
                None => rep.caps_hit.push(format!("ML-DSA-{}: no message with ExpandMask counter >= {t} within {cap} reference signatures", p.id)),
                Some(&(i, k)) => {
                    let m = format!("kappa-search-{i}").into_bytes();
                    for mode in EXTERNAL_MODES {
                        let want_k = if mode == Mode::Pure { k } else { 0 };
                        let want = refmodel::sign(&skc, mode, &m, b"", &[0u8; 32]).unwrap();
                        let mut rng = ScriptRng::ok(&[0u8; 32]);
                        rep.count(&format!("model_selected:kappa>={t}"), 1);
                        rep.nontrivial_case(fnv(&[&m[..], &[mode as u8, p.id as u8]].concat()));
                        let pr = Probe { mode, msg: m.clone(), ctx: vec![], rnd: [0u8; 32] };
                        let replay = json!({"engine":"api","set":p.id,"ops":[{"op":"sk_from_bytes","sk":hex(&skb)},{"op":"sign","probe":pr.json_full(),"expect":hex(&want)}]});
                        match sk.sign(mode, &mut rng, &m, b"") {
                            Ok(Ok(s)) if s == want => {}
                            other => rep.violate(Violation {
                                key: format!("c03:kappa>={t}:{mode:?}"),
                                summary: format!("ML-DSA-{} mode {mode:?}: signature differs from the reference for a message whose accepted attempt uses ExpandMask counter {} (>= {t}): {:?}", p.id, want_k, other.map(|r| r.map(|_| "different bytes"))),
                                replay,
                            }),
                        }
                    }
                }
            }
        }
        // far beyond the FIPS 204 Appendix-C figure (814 iterations): the accepted ML-DSA-44 key whose t0 coefficients all have
        // maximal magnitude with pseudo-random signs needs thousands of attempts; the signature is still the reference's
        if p.id == 44 {
            let hb = refmodel::keygen_internal(p, &[0x21u8; 32]);
            let hkb = crate::checks_d::hostile_t0_key(p, &hb);
            let hkc = SkCtx::new(p, &hkb);
            if let Ok(Ok(hsk)) = (api.sk_from_bytes)(&hkb) {
                // kappa-overflow-524 needs 16 355 attempts with the reference: 29 short of exhausting the 16-bit counter
                for m in ["kappa-overflow-0", "kappa-overflow-1", "kappa-overflow-524"] {
                    let mp = refmodel::format_message(Mode::Pure, m.as_bytes(), b"").unwrap();
                    let (want, info) = refmodel::sign_internal_ctx(&hkc, &mp, &[0u8; 32], &refmodel::SignOpts { max_iters: 16384, ..Default::default() });
                    let Some(want) = want else {
                        rep.caps_hit.push(format!("ML-DSA-44 hostile-t0 key, message {m}: the reference did not finish within 16384 attempts"));
                        continue;
                    };
                    rep.count("model_selected:iterations>814", 1);
                    rep.extra.insert(format!("hostile_t0_key_iterations:{m}"), json!(info.iterations));
                    rep.nontrivial_case(fnv(m.as_bytes()));
                    let mut rng = ScriptRng::ok(&[0u8; 32]);
                    let pr = Probe { mode: Mode::Pure, msg: m.as_bytes().to_vec(), ctx: vec![], rnd: [0u8; 32] };
                    match hsk.sign(Mode::Pure, &mut rng, m.as_bytes(), b"") {
                        Ok(Ok(s)) if s == want => {}
                        other => rep.violate(Violation {
                            key: "c03:iterations>814".into(),
                            summary: format!("ML-DSA-44: signature differs from the reference for an accepted private key and message whose rejection loop runs {} iterations (> 814): {:?}", info.iterations, other.map(|r| r.map(|_| "different bytes"))),
                            replay: json!({"engine":"api","set":p.id,"ops":[{"op":"sk_from_bytes","sk":hex(&hkb)},{"op":"sign","probe":pr.json_full(),"expect":hex(&want)}]}),
                        }),
                    }
                }
            }
        }
        // an attempt rejected with ||c t0|| EXACTLY gamma2 (only reachable for ML-DSA-44, where tau*2^12 > gamma2): the valid
        // key whose every t0 coefficient is gamma2/32 = 2976 makes c*t0 a multiple of 2976, so the boundary is hit when the
        // largest partial sum of the challenge's signs is exactly 32
        if p.id == 44 {
            // The challenge c of an attempt depends on (K, rnd, mu, A) but not on t0. Take the c of the first attempt that
            // passes the z / r0 tests under t0 = 0, then craft t0[0] so that coefficient 0 of c*t0 is exactly
            // 31 * 3072 = 95232 = gamma2 (31 of the tau = 39 non-zero challenge coefficients, each met by +-3072).
            let mut found = false;
            for mi in 0..cx.tier.pick(24u32, 200) {
                let m = format!("ct0-boundary-{mi}").into_bytes();
                let mp = refmodel::format_message(Mode::Pure, &m, b"").unwrap();
                let sk0 = refmodel::sk_encode(p, &base.rho, &base.key, &base.tr, &base.s1, &base.s2, &vec![refmodel::POLY0; p.k]);
                let info0 = refmodel::sign_internal_ctx(&SkCtx::new(p, &sk0), &mp, &[0u8; 32], &refmodel::SignOpts::default()).1;
                let Some(c) = info0.first_c_after_zr0 else { continue };
                // (c * t0)[0] = t0_0 c_0 - sum_{j>=1} t0_j c_{256-j}
                let mut t0p = refmodel::POLY0;
                let mut used = 0;
                for j in 0..256usize {
                    if used == 31 {
                        break;
                    }
                    let cj = if j == 0 { c[0] } else { -c[256 - j] };
                    if cj != 0 {
                        t0p[j] = 3072 * cj;
                        used += 1;
                    }
                }
                let mut t0v = vec![refmodel::POLY0; p.k];
                t0v[0] = t0p;
                let skb2 = refmodel::sk_encode(p, &base.rho, &base.key, &base.tr, &base.s1, &base.s2, &t0v);
                let skc2 = SkCtx::new(p, &skb2);
                let (want, info) = refmodel::sign_internal_ctx(&skc2, &mp, &[0u8; 32], &refmodel::SignOpts::default());
                if !info.boundary_rejections.contains(&"ct0_norm==gamma2") {
                    continue;
                }
                found = true;
                let want = want.unwrap();
                if let Ok(Ok(sk2)) = (api.sk_from_bytes)(&skb2) {
                    let mut rng = ScriptRng::ok(&[0u8; 32]);
                    rep.count("model_selected:rejected_exactly_at:ct0_norm==gamma2", 1);
                    rep.nontrivial_case(fnv(&m));
                    match sk2.sign(Mode::Pure, &mut rng, &m, b"") {
                        Ok(Ok(s)) if s == want => {}
                        other => rep.violate(Violation {
                            key: "c03:boundary:ct0_norm==gamma2".into(),
                            summary: format!("ML-DSA-44: signature differs from the reference for a key/message whose attempt with ||c t0|| = gamma2 exactly must be rejected: {:?}", other.map(|r| r.map(|_| "different bytes"))),
                            replay: json!({"engine":"api","set":p.id,"ops":[{"op":"sk_from_bytes","sk":hex(&skb2)},{"op":"sign","probe":Probe{mode:Mode::Pure,msg:m.clone(),ctx:vec![],rnd:[0u8;32]}.json_full(),"expect":hex(&want)}]}),
                        }),
                    }
                }
                break;
            }
            if !found {
                rep.caps_hit.push("ML-DSA-44: could not craft a key/message pair with an attempt rejected at ||c t0|| = gamma2 exactly".into());
            }
        }
        // the C01 hard cases (>= 10 iterations, late rejections, extremal norms) through the differential oracle
        let kg = refmodel::keygen_internal(p, &alpha::counter32(cx.seed, "seed", 0));
        let skc = SkCtx::new(p, &kg.sk);
        let (cases, _) = hard_cases(p, &skc, cx.tier.pick(3_000, 50_000));
        if let Ok(Ok(sk)) = (api.sk_from_bytes)(&kg.sk) {
            for hc in &cases {
                let want = refmodel::sign(&skc, Mode::Pure, &hc.msg, b"", &hc.rnd).unwrap();
                let mut rng = ScriptRng::ok(&hc.rnd);
                rep.count(&format!("hard:{}", hc.class), 1);
                rep.nontrivial_case(fnv(&[&hc.msg[..], &[p.id as u8]].concat()));
                match sk.sign(Mode::Pure, &mut rng, &hc.msg, b"") {
                    Ok(Ok(s)) if s == want => {}
                    _ => rep.violate(Violation {
                        key: format!("c03:hard:{}", hc.class),
                        summary: format!("ML-DSA-{}: signature differs from the reference on hard case '{}'", p.id, hc.class),
                        replay: json!({"engine":"api","set":p.id,"ops":[{"op":"sk_from_bytes","sk":hex(&kg.sk)},{"op":"sign","probe":Probe{mode:Mode::Pure,msg:hc.msg.clone(),ctx:vec![],rnd:hc.rnd}.json_full(),"expect":hex(&want)}]}),
                    }),
                }
            }
        }
    }
    rep.require_class("import:s_all_plus_eta");
    rep.require_class("import:t0_all_max");
}

// ------------------------------------------------------------------------------------------------ C04

#[derive(Default, Clone, Debug)]
struct RareSeeds {
    rej_eq_q: Option<u64>,
    acc_eq_qm1: Option<u64>,
    rej_eq_2p23m1: Option<u64>,
    rej_topbit_only: Option<u64>,
    /// some RejBoundedPoly needs a third SHAKE256 block (> 272 bytes): only eta = 4 can
    bounded_third_block: Option<u64>,
}

/// sampler-only model runs over counter seeds until a seed is found for each rare RejNTTPoly event
fn find_rare_seeds(p: &'static Params, verif_seed: u64, cap: u64) -> RareSeeds {
    let mut out = RareSeeds::default();
    let chunk = 2048u64;
    let mut base = 0;
    while base < cap && (out.rej_eq_q.is_none() || out.acc_eq_qm1.is_none() || out.rej_eq_2p23m1.is_none() || (p.eta == 4 && out.bounded_third_block.is_none())) {
        let hits: Vec<(u64, bool, bool, bool, bool)> = (base..base + chunk)
            .into_par_iter()
            .map(|i| {
                let xi = alpha::counter32(verif_seed, "rare", i);
                let seed = refmodel::h(&[&xi, &[p.k as u8], &[p.l as u8]], 32);
                let mut st = refmodel::RejStats::default();
                for r in 0..p.k {
                    for s in 0..p.l {
                        let mut rp = seed.clone();
                        rp.push(s as u8);
                        rp.push(r as u8);
                        let _ = refmodel::rej_ntt_poly_stats(&rp, &mut st);
                    }
                }
                // ExpandS byte consumption (rho' is bytes 32..96 of the same hash)
                let seed128 = refmodel::h(&[&xi, &[p.k as u8], &[p.l as u8]], 128);
                let mut third = false;
                if p.eta == 4 {
                    for r in 0..p.l + p.k {
                        let mut rp = seed128[32..96].to_vec();
                        rp.extend_from_slice(&(r as u16).to_le_bytes());
                        let mut bs = refmodel::BoundedStats::default();
                        let _ = refmodel::rej_bounded_poly_stats(p.eta, &rp, &mut bs);
                        third |= bs.bytes_used > 272;
                    }
                }
                (i, st.rejected.contains(&refmodel::Q), st.max_accepted == refmodel::Q - 1, st.rejected.contains(&0x7F_FFFF), third)
            })
            .collect();
        for (i, a, b, c, d) in hits {
            if d && out.bounded_third_block.is_none() {
                out.bounded_third_block = Some(i);
            }
            if a && out.rej_eq_q.is_none() {
                out.rej_eq_q = Some(i);
            }
            if b && out.acc_eq_qm1.is_none() {
                out.acc_eq_qm1 = Some(i);
            }
            if c && out.rej_eq_2p23m1.is_none() {
                out.rej_eq_2p23m1 = Some(i);
            }
        }
        base += chunk;
    }
    out.rej_topbit_only = None;
    out
}

/// Model-selected seeds for rare whole-keygen events (full reference KeyGen per counter seed). The search involves only
/// the reference model, so its result is independent of /repo and of VERIF_SEED: it is committed under witnesses/ and
/// re-derived (and extended) whenever the file is missing or a larger cap is requested.
pub fn rare_keygen_seeds(p: &'static Params, _verif_seed: u64, cap: u64) -> Vec<(String, [u8; 32])> {
    let path = format!("{}/witnesses/rarekg_mldsa{}.json", crate::report::verif_root(), p.id);
    let names = ["t_wraps_past_q", "t_wraps_below_0", "t_wraps_past_q_in_last_row", "t_wraps_below_0_in_last_row", "t_coeff=0", "t_coeff=q-1", "t_coeff=0_without_wrap", "t_coeff=q-1_without_wrap", "As1+s2==q_exactly", "As1+s2==-1_exactly"];
    let mut known: Vec<(String, String)> = Vec::new();
    let mut searched: u64 = 0;
    if let Ok(text) = std::fs::read_to_string(&path) {
        if let Ok(v) = serde_json::from_str::<serde_json::Value>(&text) {
            searched = v["searched"].as_u64().unwrap_or(0);
            for e in v["seeds"].as_array().cloned().unwrap_or_default() {
                known.push((e[0].as_str().unwrap().to_string(), e[1].as_str().unwrap().to_string()));
            }
        }
    }
    let complete = names.iter().all(|n| known.iter().any(|(k, _)| k == n));
    if !complete && searched < cap {
        let mut found: Vec<Option<u64>> = names.iter().map(|_| None).collect();
        let chunk = 4096u64;
        let mut base = 0;
        while base < cap && found.iter().any(|f| f.is_none()) {
            let hits: Vec<(u64, [bool; 10])> = (base..base + chunk)
                .into_par_iter()
                .map(|i| {
                    let kg = refmodel::keygen_internal(p, &alpha::counter32(0, "rarekg", i));
                    let mut h = [false; 10];
                    for k in 0..p.k {
                        for n in 0..256 {
                            let t = i64::from(kg.t[k][n]);
                            let s2 = i64::from(kg.s2[k][n]);
                            let as1 = refmodel::mod_q(t - s2);
                            if as1 + s2 >= refmodel::Q {
                                h[0] = true;
                                h[2] |= k == p.k - 1;
                            }
                            if as1 + s2 < 0 {
                                h[1] = true;
                                h[3] |= k == p.k - 1;
                            }
                            h[4] |= t == 0;
                            h[5] |= t == refmodel::Q - 1;
                            let nowrap = as1 + s2 >= 0 && as1 + s2 < refmodel::Q;
                            h[6] |= t == 0 && nowrap;
                            h[7] |= t == refmodel::Q - 1 && nowrap;
                            h[8] |= as1 + s2 == refmodel::Q;
                            h[9] |= as1 + s2 == -1;
                        }
                    }
                    (i, h)
                })
                .collect();
            for (i, h) in hits {
                for e in 0..10 {
                    if h[e] && found[e].is_none() {
                        found[e] = Some(i);
                    }
                }
            }
            base += chunk;
        }
        known = names.iter().zip(found.iter()).filter_map(|(n, f)| f.map(|i| (n.to_string(), hex(&alpha::counter32(0, "rarekg", i))))).collect();
        let _ = std::fs::write(&path, serde_json::to_string_pretty(&json!({"set": p.id, "searched": base, "how": "first counter seed (tag rarekg) whose reference KeyGen_internal shows the event", "seeds": known})).unwrap());
    }
    let mut out: Vec<(String, [u8; 32])> = known.into_iter().map(|(n, h)| (n, refmodel::unhex(&h).try_into().unwrap())).collect();
    // committed result of `mc raresearch expands` (8e7 reference ExpandS runs): seeds for which one RejBoundedPoly call
    // consumes the most SHAKE256 output (eta = 4: 288..294 bytes, i.e. deep into the third block)
    // likewise `mc raresearch expanda` (1.5e6 reference ExpandA runs per set): seeds whose matrix contains the RejNTTPoly call
    // that rejects the most candidates (6-7 rejections, 786-789 bytes)
    for (file, what) in [("expand_s_long.json", "ExpandS"), ("expand_a_long.json", "ExpandA")] {
        if let Ok(text) = std::fs::read_to_string(format!("{}/witnesses/{file}", crate::report::verif_root())) {
            if let Ok(v) = serde_json::from_str::<serde_json::Value>(&text) {
                for w in v["witnesses"].as_array().cloned().unwrap_or_default() {
                    if w["set"].as_u64() == Some(p.id as u64) {
                        if let Ok(xi) = <[u8; 32]>::try_from(refmodel::unhex(w["seed"].as_str().unwrap_or(""))) {
                            out.push((format!("{what}_polynomial_consumes_{}_bytes", w["bytes"]), xi));
                        }
                    }
                }
            }
        }
    }
    out
}
pub fn rare_cap(tier: Tier) -> u64 { tier.pick(262_144, 1_048_576) }

fn keygen_case(api: &'static SetApi, xi: &[u8; 32], class: &str) -> (Option<Violation>, Vec<String>) {
    let p = api.p;
    let want = refmodel::keygen_internal(p, xi);
    let mut tags = Vec::new();
    // coverage statistics from the model
    if want.t.iter().any(|poly| poly.iter().any(|&c| refmodel::power2round(i64::from(c)).1 == 4096)) {
        tags.push("p2r_tie_r0=+4096".to_string());
    }
    if want.t0.iter().any(|poly| poly.iter().any(|&c| c == -4095)) {
        tags.push("r0=-4095".to_string());
    }
    if want.t1.iter().any(|poly| poly.iter().any(|&c| c == 1023)) {
        tags.push("t1=1023".to_string());
    }
    if want.t.iter().any(|poly| poly.iter().any(|&c| c == 0)) {
        tags.push("t=0".to_string());
    }
    let replay = json!({"engine":"api","set":p.id,"ops":[{"op":"keygen_both","seed":hex(xi),"expect_pk_fnv":format!("{:016x}",fnv(&want.pk)),"expect_sk_fnv":format!("{:016x}",fnv(&want.sk))}]});
    let v = |key: &str, what: String| Some(Violation { key: format!("c04:{key}"), summary: format!("ML-DSA-{} seed {} (class {class}): {what}", p.id, hex(xi)), replay: replay.clone() });
    let (pk, sk) = match (api.keygen_seed)(xi) {
        Ok(x) => x,
        Err(pn) => return (v(&format!("panic:{}", pn.0.split('@').next_back().unwrap_or("").trim()), format!("keygen_from_seed panicked: {}", pn.0)), tags),
    };
    let (pkb, skb) = match (pk.to_bytes(), sk.to_bytes()) {
        (Ok(a), Ok(b)) => (a, b),
        (a, b) => return (v("panic:into_bytes", format!("into_bytes panicked: {:?} {:?}", a.err(), b.err())), tags),
    };
    if pkb != want.pk {
        return (v("seed:pk-differs", format!("public key differs from KeyGen_internal at byte {:?}", pkb.iter().zip(&want.pk).position(|(a, b)| a != b))), tags);
    }
    if skb != want.sk {
        return (v("seed:sk-differs", format!("private key differs from KeyGen_internal at byte {:?}", skb.iter().zip(&want.sk).position(|(a, b)| a != b))), tags);
    }
    let mut rng = ScriptRng::ok(xi);
    match (api.keygen_rng)(&mut rng) {
        Ok(Ok((pk2, sk2))) => {
            if rng.log != [32] {
                return (v("rng:log", format!("try_keygen_with_rng made RNG requests {:?} instead of one 32-byte request", rng.log)), tags);
            }
            if pk2.to_bytes().ok().as_ref() != Some(&want.pk) || sk2.to_bytes().ok().as_ref() != Some(&want.sk) {
                return (v("rng:differs", "try_keygen_with_rng keys differ from KeyGen_internal on the 32 bytes drawn".into()), tags);
            }
        }
        Ok(Err(e)) => return (v("rng:err", format!("try_keygen_with_rng returned Err({e}) with a working RNG")), tags),
        Err(pn) => return (v("rng:panic", format!("try_keygen_with_rng panicked: {}", pn.0)), tags),
    }
    // no other source of variation: a repeated call gives identical objects
    if let Ok((pk3, sk3)) = (api.keygen_seed)(xi) {
        if pk3.to_bytes().ok() != pk.to_bytes().ok() || sk3.to_bytes().ok() != sk.to_bytes().ok() {
            return (v("seed:nondeterministic", "two calls of keygen_from_seed with the same seed differ".into()), tags);
        }
    }
    (None, tags)
}

/// Volume sweep over counter seeds (tag "kgsweep") with a reference-free oracle: the public key returned by key generation
/// must serialise to the same bytes as the one derived from the returned private key (a different code path: expansion of
/// the stored s1, s2 and a fresh A s1 + s2), and neither call may panic. Every `ref_every`-th seed is also compared with
/// the reference KeyGen_internal; a seed that fails the cheap oracle is always compared with the reference. Returns
/// (seed, pk differs from reference, derived differs from generated, panic text).
pub fn keygen_sweep(api: &'static SetApi, n: u64, ref_every: u64) -> Vec<([u8; 32], bool, bool, Option<String>)> {
    let p = api.p;
    (0..n)
        .into_par_iter()
        .filter_map(|i| {
            let xi = alpha::counter32(0, "kgsweep", i);
            let mut panic = None;
            let mut pkb = None;
            let mut derived = None;
            match (api.keygen_seed)(&xi) {
                Err(pn) => panic = Some(format!("keygen_from_seed: {}", pn.0)),
                Ok((pk, sk)) => {
                    match pk.to_bytes() {
                        Ok(b) => pkb = Some(b),
                        Err(pn) => panic = Some(format!("PublicKey::into_bytes: {}", pn.0)),
                    }
                    match sk.derive_pk().and_then(|k| k.to_bytes()) {
                        Ok(b) => derived = Some(b),
                        Err(pn) => panic = Some(format!("get_public_key: {}", pn.0)),
                    }
                }
            }
            let inconsistent = pkb.is_some() && derived.is_some() && pkb != derived;
            if panic.is_none() && !inconsistent && (ref_every == 0 || i % ref_every != 0) {
                return None;
            }
            let want = refmodel::keygen_internal(p, &xi);
            let differs = pkb.as_ref() != Some(&want.pk);
            if panic.is_none() && !inconsistent && !differs {
                return None;
            }
            Some((xi, differs, inconsistent, panic))
        })
        .collect()
}
pub fn keygen_sweep_size(tier: Tier, set: u32) -> u64 {
    match (tier, set) {
        (Tier::Quick, _) => 30_000,
        (Tier::Thorough, 87) => 4_000_000,
        (Tier::Thorough, _) => 2_000_000,
    }
}

pub fn c04(cx: &Ctx, rep: &mut Report) {
    rep.rule = "seeds: 0^32, FF^32, 256 one-hot, counter seeds, plus model-selected seeds (sampler-only reference runs pick the first counter seed whose ExpandA meets a 3-byte candidate = q, a maximal accepted value q-1, a candidate 2^23-1); each through keygen_from_seed and try_keygen_with_rng; oracle = byte equality with reference KeyGen_internal (pk and sk), RNG log, struct equality of both entry points, determinism. Non-trivial = structured (extremal / one-hot) or model-selected seed, or counter seed whose key meets a Power2Round tie / t1 = 1023 (classified by the model).".into();
    let ncounter = cx.tier.pick(256u64, 32768);
    let cap = cx.tier.pick(40_000u64, 2_000_000);
    for api in APIS {
        let p = api.p;
        let mut seeds: Vec<([u8; 32], String)> = vec![([0u8; 32], "zero".into()), ([0xFF; 32], "ff".into())];
        for b in 0..256 {
            seeds.push((alpha::one_hot32(b), "one_hot".into()));
        }
        for i in 0..ncounter {
            seeds.push((alpha::counter32(cx.seed, "seed", i), "counter".into()));
        }
        let rare = find_rare_seeds(p, cx.seed, cap);
        let mut wanted = vec![("rej_candidate=q", rare.rej_eq_q), ("accepted=q-1", rare.acc_eq_qm1), ("rej_candidate=2^23-1", rare.rej_eq_2p23m1)];
        if p.eta == 4 {
            wanted.push(("RejBoundedPoly-needs-third-SHAKE-block", rare.bounded_third_block));
        }
        for (name, s) in wanted {
            match s {
                Some(i) => seeds.push((alpha::counter32(cx.seed, "rare", i), format!("model_selected:{name}"))),
                None => rep.caps_hit.push(format!("ML-DSA-{}: no seed with {name} within {cap} sampler-only runs", p.id)),
            }
        }
        let rk = rare_keygen_seeds(p, cx.seed, rare_cap(cx.tier));
        for need in ["t_wraps_past_q", "t_wraps_below_0", "t_wraps_past_q_in_last_row", "t_wraps_below_0_in_last_row", "t_coeff=q-1_without_wrap"] {
            if !rk.iter().any(|(n, _)| n == need) {
                rep.caps_hit.push(format!("ML-DSA-{}: no seed with {need} within {} reference key generations", p.id, rare_cap(cx.tier)));
            }
        }
        for (n, xi) in rk {
            seeds.push((xi, format!("model_selected:{n}")));
        }
        let results: Vec<(Option<Violation>, Vec<String>)> = seeds.par_iter().map(|(xi, class)| keygen_case(api, xi, class)).collect();
        for ((xi, class), (v, tags)) in seeds.iter().zip(results) {
            rep.count(class, 1);
            let mut nt = class != "counter";
            for t in &tags {
                rep.count(&format!("model_event:{t}"), 0);
                *rep.classes.entry(format!("model_event:{t}")).or_insert(0) += 1;
                nt = true;
            }
            if nt {
                rep.nontrivial_case(fnv(&[&xi[..], &p.id.to_le_bytes()].concat()));
            }
            match v {
                Some(v) => {
                    rep.outcome("differs", 1);
                    rep.violate(v);
                }
                None => rep.outcome("equal_to_reference", 1),
            }
        }
        rep.sample(json!({"set": p.id, "model_selected_seed_indices": format!("{rare:?}"), "example_seed": hex(&seeds[2].0)}));
        // volume sweep: counter seeds 0..n, cheap self-consistency oracle on all of them, reference on every 256th and on
        // every seed that fails the cheap oracle (reaches implementation-level rare events no model can name in advance)
        let n = keygen_sweep_size(cx.tier, p.id);
        let t = std::time::Instant::now();
        let bad = keygen_sweep(api, n, 256);
        rep.count("sweep:counter-seeds", n);
        rep.count("sweep:reference-compared", n / 256 + bad.len() as u64);
        rep.extra.insert(format!("keygen_sweep_mldsa{}", p.id), json!({"seeds": n, "tag": "kgsweep", "reference_every": 256, "wall_s": t.elapsed().as_secs_f64()}));
        for (xi, differs, inconsistent, panic) in bad {
            let replay = json!({"engine":"api","set":p.id,"ops":[{"op":"keygen_both","seed":hex(&xi),"expect_pk_fnv":format!("{:016x}",fnv(&refmodel::keygen_internal(p, &xi).pk)),"expect_sk_fnv":format!("{:016x}",fnv(&refmodel::keygen_internal(p, &xi).sk))}]});
            if let Some(pn) = panic {
                rep.violate(Violation { key: format!("c04:sweep:panic:{}", pn.split('@').next_back().unwrap_or("").trim()), summary: format!("ML-DSA-{} seed {} (volume sweep): {pn}", p.id, hex(&xi)), replay });
            } else if differs {
                rep.violate(Violation { key: "c04:sweep:pk-differs".into(), summary: format!("ML-DSA-{} seed {} (volume sweep): public key differs from KeyGen_internal (generated and derived public keys agree: {})", p.id, hex(&xi), !inconsistent), replay });
            }
        }
    }
    rep.require_class("one_hot");
    rep.require_class("counter");
}

// ------------------------------------------------------------------------------------------------ C09

/// write `value` into the `nbits`-wide little-endian bit field starting at absolute bit offset `bit_off`
pub fn set_field(bytes: &mut [u8], bit_off: usize, nbits: usize, value: u32) {
    for i in 0..nbits {
        let bit = (value >> i) & 1;
        let pos = bit_off + i;
        let mask = 1u8 << (pos % 8);
        if bit == 1 {
            bytes[pos / 8] |= mask;
        } else {
            bytes[pos / 8] &= !mask;
        }
    }
}

fn pk_roundtrip_case(api: &'static SetApi, pkb: &[u8], what: &str) -> Option<Violation> {
    let p = api.p;
    let replay = json!({"engine":"api","set":p.id,"ops":[{"op":"pk_roundtrip","pk":hex(pkb)}]});
    match (api.pk_from_bytes)(pkb) {
        Err(pn) => Some(Violation { key: format!("c09:pk:panic:{}", pn.0.split('@').next_back().unwrap_or("").trim()), summary: format!("ML-DSA-{} PublicKey::try_from_bytes panicked on {what}: {}", p.id, pn.0), replay }),
        Ok(Err(e)) => Some(Violation { key: "c09:pk:rejected".into(), summary: format!("ML-DSA-{} PublicKey::try_from_bytes rejected {what}: {e} (every byte string of public-key length must deserialise)", p.id), replay }),
        Ok(Ok(k)) => match k.to_bytes() {
            Err(pn) => Some(Violation { key: format!("c09:pk:panic:{}", pn.0.split('@').next_back().unwrap_or("").trim()), summary: format!("ML-DSA-{} PublicKey::into_bytes panicked on {what}: {}", p.id, pn.0), replay }),
            Ok(b) if b != pkb => Some(Violation {
                key: "c09:pk:roundtrip-differs".into(),
                summary: format!("ML-DSA-{} public key {what} does not round-trip: first differing byte {:?}", p.id, b.iter().zip(pkb).position(|(a, b)| a != b)),
                replay,
            }),
            Ok(_) => None,
        },
    }
}

fn sk_roundtrip_case(api: &'static SetApi, skb: &[u8], what: &str) -> Option<Violation> {
    let p = api.p;
    let replay = json!({"engine":"api","set":p.id,"ops":[{"op":"sk_roundtrip","sk":hex(skb)}]});
    match (api.sk_from_bytes)(skb) {
        Err(pn) => Some(Violation { key: format!("c09:sk:panic:{}", pn.0.split('@').next_back().unwrap_or("").trim()), summary: format!("ML-DSA-{} PrivateKey::try_from_bytes panicked on {what}: {}", p.id, pn.0), replay }),
        Ok(Err(e)) => Some(Violation { key: "c09:sk:valid-rejected".into(), summary: format!("ML-DSA-{} PrivateKey::try_from_bytes rejected in-range encoding {what}: {e}", p.id), replay }),
        Ok(Ok(k)) => match k.to_bytes() {
            Err(pn) => Some(Violation { key: format!("c09:sk:panic:{}", pn.0.split('@').next_back().unwrap_or("").trim()), summary: format!("ML-DSA-{} PrivateKey::into_bytes panicked on {what}: {}", p.id, pn.0), replay }),
            Ok(b) if b != skb => Some(Violation {
                key: "c09:sk:roundtrip-differs".into(),
                summary: format!("ML-DSA-{} private key {what} does not round-trip: first differing byte {:?}", p.id, b.iter().zip(skb).position(|(a, b)| a != b)),
                replay,
            }),
            Ok(_) => None,
        },
    }
}

pub fn c09(cx: &Ctx, rep: &mut Report) {
    rep.rule = "pk bytes -> struct -> bytes for extremal shapes and one-hot (polynomial x coefficient position x t1 value, on backgrounds 0 and 1023); sk likewise for valid extremal shapes and one-hot s1/s2 (all in-range field values) and t0 (field values) fields; E1 lifecycle graph must close under SkRoundTrip/PkRoundTrip/Clone (raw struct equality incl. cached tr) and every state signs/verifies identically (C01/C03 oracles on the merged state). Non-trivial = every case other than an honestly generated key (those never occur in the test suite).".into();
    // lifecycle part
    let probes = alpha::probes_small(cx.seed, &EXTERNAL_MODES);
    run_e1_all(cx, rep, Oracles { c09: true, c01: true, c03: true, ..Default::default() }, &probes, cx.tier.pick(3, 5), false, true);

    for api in APIS {
        let p = api.p;
        let base = refmodel::keygen_internal(p, &alpha::counter32(cx.seed, "seed", 2));
        // ---- pk shapes
        for (name, pkb) in alpha::pk_shapes(p, &base) {
            rep.count("pk_shape", 1);
            rep.nontrivial_case(fnv(&pkb));
            if let Some(v) = pk_roundtrip_case(api, &pkb, &format!("shape '{name}'")) {
                rep.violate(v);
            }
        }
        // ---- pk one-hot
        let polys: Vec<usize> = cx.tier.pick(vec![0, p.k - 1], (0..p.k).collect());
        let mut cases: Vec<(usize, usize, u32, u32)> = Vec::new(); // poly, pos, value, background
        for &poly in &polys {
            for bg in [0u32, 1023] {
                for pos in 0..256 {
                    let vals: Vec<u32> = if cx.tier == Tier::Thorough || pos == 0 || pos == 255 { (0..1024).collect() } else { vec![0, 1, 2, 511, 512, 1022, 1023] };
                    for v in vals {
                        cases.push((poly, pos, v, bg));
                    }
                }
            }
        }
        let bg_keys: Vec<Vec<u8>> = [0i32, 1023].iter().map(|&bg| refmodel::pk_encode(p, &base.rho, &vec![[bg; 256]; p.k])).collect();
        let viol: Vec<Violation> = cases
            .par_iter()
            .filter_map(|&(poly, pos, v, bg)| {
                let mut pkb = bg_keys[usize::from(bg != 0)].clone();
                set_field(&mut pkb, 32 * 8 + (poly * 256 + pos) * 10, 10, v);
                pk_roundtrip_case(api, &pkb, &format!("one-hot t1[{poly}][{pos}]={v} on background {bg}"))
            })
            .collect();
        rep.count("pk_one_hot", cases.len() as u64);
        rep.nontrivial_by_construction(cases.len() as u64);
        for v in viol {
            rep.violate(v);
        }
        // ---- sk shapes
        for (name, skb) in alpha::sk_shapes(p, &base) {
            rep.count("sk_shape", 1);
            rep.nontrivial_case(fnv(&skb));
            if let Some(v) = sk_roundtrip_case(api, &skb, &format!("shape '{name}'")) {
                rep.violate(v);
            }
        }
        // ---- sk one-hot: s fields (in-range values only; out-of-range is C10's business)
        let eb = p.eta_bits();
        let nvals = (2 * p.eta + 1) as u32;
        let spolys: Vec<usize> = cx.tier.pick(vec![0, p.l - 1, p.l, p.l + p.k - 1], (0..p.l + p.k).collect());
        let mut scases: Vec<(usize, usize, u32)> = Vec::new();
        for &poly in &spolys {
            for pos in 0..256 {
                for v in 0..nvals {
                    scases.push((poly, pos, v));
                }
            }
        }
        let viol: Vec<Violation> = scases
            .par_iter()
            .filter_map(|&(poly, pos, v)| {
                let mut skb = base.sk.clone();
                set_field(&mut skb, 128 * 8 + (poly * 256 + pos) * eb, eb, v);
                sk_roundtrip_case(api, &skb, &format!("one-hot s-field poly {poly} coeff {pos} value {v}"))
            })
            .collect();
        // out-of-range s-field values: whether they are accepted is C10's business; IF one is accepted it must
        // serialise back to identical bytes like every other accepted key
        let nv = 1u32 << eb;
        let mut ocases: Vec<(usize, usize, u32)> = Vec::new();
        for &poly in &spolys {
            for pos in [0usize, 1, 255] {
                for v in nvals..nv {
                    ocases.push((poly, pos, v));
                }
            }
        }
        let oviol: Vec<Violation> = ocases
            .par_iter()
            .filter_map(|&(poly, pos, v)| {
                let mut skb = base.sk.clone();
                set_field(&mut skb, 128 * 8 + (poly * 256 + pos) * eb, eb, v);
                match (api.sk_from_bytes)(&skb) {
                    Ok(Err(_)) => None,
                    _ => sk_roundtrip_case(api, &skb, &format!("ACCEPTED out-of-range s-field poly {poly} coeff {pos} value {v}")),
                }
            })
            .collect();
        rep.count("sk_out_of_range_s_if_accepted", ocases.len() as u64);
        rep.nontrivial_by_construction(ocases.len() as u64);
        for v in oviol {
            rep.violate(v);
        }
        rep.count("sk_one_hot_s", scases.len() as u64);
        rep.nontrivial_by_construction(scases.len() as u64);
        for v in viol {
            rep.violate(v);
        }
        // ---- sk one-hot: t0 fields
        let t0_off = 128 * 8 + (p.l + p.k) * 256 * eb;
        let tpolys: Vec<usize> = cx.tier.pick(vec![0, p.k - 1], (0..p.k).collect());
        let mut tcases: Vec<(usize, usize, u32)> = Vec::new();
        for &poly in &tpolys {
            for pos in 0..256 {
                let vals: Vec<u32> = if pos == 0 || (cx.tier == Tier::Thorough && (pos == 1 || pos == 255)) { (0..8192).collect() } else { vec![0, 1, 4095, 4096, 4097, 8190, 8191] };
                for v in vals {
                    tcases.push((poly, pos, v));
                }
            }
        }
        let viol: Vec<Violation> = tcases
            .par_iter()
            .filter_map(|&(poly, pos, v)| {
                let mut skb = base.sk.clone();
                set_field(&mut skb, t0_off + (poly * 256 + pos) * 13, 13, v);
                sk_roundtrip_case(api, &skb, &format!("one-hot t0 poly {poly} coeff {pos} field {v}"))
            })
            .collect();
        rep.count("sk_one_hot_t0", tcases.len() as u64);
        rep.nontrivial_by_construction(tcases.len() as u64);
        for v in viol {
            rep.violate(v);
        }
        rep.sample(json!({"set":p.id,"pk_one_hot_cases":cases.len(),"sk_s_cases":scases.len(),"sk_t0_cases":tcases.len(),
            "example":"pk = rho || SimpleBitPack(t1) with t1[k-1][255]=1023 on background 0"}));

        // ---- behaviour preservation on imported keys: original object vs round-tripped object
        let skc = SkCtx::new(p, &base.sk);
        let pkc = PkCtx::new(p, &base.pk);
        if let (Ok(Ok(sk1)), Ok(Ok(pk1))) = ((api.sk_from_bytes)(&base.sk), (api.pk_from_bytes)(&base.pk)) {
            if let (Ok(b1), Ok(b2)) = (sk1.to_bytes(), pk1.to_bytes()) {
                if let (Ok(Ok(sk2)), Ok(Ok(pk2))) = ((api.sk_from_bytes)(&b1), (api.pk_from_bytes)(&b2)) {
                    for pr in &probes {
                        let o1 = e1::run_probe(pk1.as_ref(), sk1.as_ref(), pr);
                        let o2 = e1::run_probe(pk2.as_ref(), sk2.as_ref(), pr);
                        rep.count("behaviour_equality_probe", 1);
                        let want = refmodel::sign(&skc, pr.mode, &pr.msg, &pr.ctx, &pr.rnd).unwrap();
                        let okref = refmodel::verify(&pkc, pr.mode, &pr.msg, &pr.ctx, &want);
                        if o1 != o2 || o1 != e1::ProbeObs::Sig(want.clone(), okref) {
                            rep.violate(Violation {
                                key: "c09:behaviour-differs".into(),
                                summary: format!("ML-DSA-{}: round-tripped keys behave differently from the original / the reference on probe {:?}", p.id, pr.json()),
                                replay: json!({"engine":"api","set":p.id,"ops":[{"op":"sk_from_bytes","sk":hex(&base.sk)},{"op":"sign","probe":pr.json_full(),"expect":hex(&want)}]}),
                            });
                        }
                    }
                }
            }
        }
    }
    rep.require_class("pk_one_hot");
    rep.require_class("sk_one_hot_s");
    rep.require_class("sk_one_hot_t0");
}

// ------------------------------------------------------------------------------------------------ C10

pub fn c10(cx: &Ctx, rep: &mut Report) {
    rep.rule = "complete single-field space: (vector in {s1,s2}) x polynomial x coefficient (all 256) x field value (all 2^bitlen) written into a valid background key; plus pairs of out-of-range fields, all-fields-out-of-range and the last s2 coefficient; oracle: try_from_bytes is Err iff some s-field value > 2*eta, and an accepted key re-serialises to the same bytes without tripping the range self-check. Non-trivial = case with at least one out-of-range field (the suite has none).".into();
    for api in APIS {
        let p = api.p;
        let eb = p.eta_bits();
        let nv = 1u32 << eb;
        let maxok = (2 * p.eta) as u32;
        // whole-key shapes with every field in range (constant / zero polynomials, extremal t0, inconsistent K/tr): accepted,
        // and re-serialised to the same bytes
        for (name, skb) in alpha::sk_shapes(p, &refmodel::keygen_internal(p, &alpha::counter32(cx.seed, "seed", 3))) {
            rep.count(&format!("mldsa{}_in_range_shapes", p.id), 1);
            if name != "generated" {
                rep.nontrivial_case(fnv(&[name.as_bytes(), &[p.id as u8]].concat()));
            }
            debug_assert!(refmodel::sk_fields_in_range(p, &skb));
            let replay = json!({"engine":"api","set":p.id,"ops":[{"op":"sk_from_bytes_expect","sk":hex(&skb),"expect_ok":true}]});
            match (api.sk_from_bytes)(&skb) {
                Err(pn) => rep.violate(Violation { key: "c10:shape:panic".into(), summary: format!("ML-DSA-{} try_from_bytes panicked on the in-range shape '{name}': {}", p.id, pn.0), replay }),
                Ok(Err(e)) => rep.violate(Violation { key: "c10:in-range-rejected".into(), summary: format!("ML-DSA-{} well-formed private key rejected (shape '{name}'): {e}", p.id), replay }),
                Ok(Ok(k)) => match k.to_bytes() {
                    Ok(b) if b == skb => {}
                    Ok(_) => rep.violate(Violation { key: "c10:accepted-key-reserialises-differently".into(), summary: format!("ML-DSA-{} accepted key does not re-serialise to its input (shape '{name}')", p.id), replay }),
                    Err(pn) => rep.violate(Violation { key: "c10:accepted-key-into_bytes-panics".into(), summary: format!("ML-DSA-{} into_bytes panicked on an accepted key (shape '{name}'): {}", p.id, pn.0), replay }),
                },
            }
        }
        let mut bases: Vec<Vec<u8>> = vec![refmodel::keygen_internal(p, &alpha::counter32(cx.seed, "seed", 3)).sk];
        if cx.tier == Tier::Thorough {
            bases.push(alpha::sk_shapes(p, &refmodel::keygen_internal(p, &[0u8; 32]))[1].1.clone());
        }
        for (bi, base) in bases.iter().enumerate() {
            let mut cases: Vec<Vec<(usize, usize, u32)>> = Vec::new();
            for poly in 0..p.l + p.k {
                for pos in 0..256 {
                    for v in 0..nv {
                        cases.push(vec![(poly, pos, v)]);
                    }
                }
            }
            // pairs of out-of-range fields at positions {0,1,255} of distinct polynomials
            for &(pa, pb) in &[(0usize, p.l), (0, p.l + p.k - 1), (p.l - 1, p.l)] {
                for &xa in &[0usize, 1, 255] {
                    for &xb in &[0usize, 1, 255] {
                        for va in maxok + 1..nv {
                            cases.push(vec![(pa, xa, va), (pb, xb, nv - 1)]);
                        }
                    }
                }
            }
            // every field out of range
            cases.push((0..p.l + p.k).flat_map(|poly| (0..256).map(move |pos| (poly, pos, nv - 1))).collect());
            let results: Vec<(bool, Option<Violation>)> = cases
                .par_iter()
                .map(|mods| {
                    let mut skb = base.clone();
                    for &(poly, pos, v) in mods {
                        set_field(&mut skb, 128 * 8 + (poly * 256 + pos) * eb, eb, v);
                    }
                    let bad = mods.iter().any(|m| m.2 > maxok);
                    debug_assert_eq!(!bad, refmodel::sk_fields_in_range(p, &skb));
                    let what = if mods.len() == 1 { format!("s-field poly {} coeff {} value {}", mods[0].0, mods[0].1, mods[0].2) } else { format!("{} modified fields, first {:?}", mods.len(), mods[0]) };
                    let replay = json!({"engine":"api","set":p.id,"ops":[{"op":"sk_from_bytes_expect","sk":hex(&skb),"expect_ok":!bad}]});
                    let v = match (api.sk_from_bytes)(&skb) {
                        Err(pn) => Some(Violation { key: format!("c10:panic:{}", pn.0.split('@').next_back().unwrap_or("").trim()), summary: format!("ML-DSA-{} try_from_bytes panicked ({what}): {}", p.id, pn.0), replay }),
                        Ok(Ok(k)) => {
                            if bad {
                                Some(Violation { key: "c10:out-of-range-accepted".into(), summary: format!("ML-DSA-{} malformed private key accepted ({what}; legal values 0..={maxok})", p.id), replay })
                            } else {
                                match k.to_bytes() {
                                    Ok(b) if b == skb => None,
                                    Ok(_) => Some(Violation { key: "c10:accepted-key-reserialises-differently".into(), summary: format!("ML-DSA-{} accepted key does not re-serialise to its input ({what})", p.id), replay }),
                                    Err(pn) => Some(Violation { key: "c10:accepted-key-into_bytes-panics".into(), summary: format!("ML-DSA-{} into_bytes panicked on an accepted key ({what}): {}", p.id, pn.0), replay }),
                                }
                            }
                        }
                        Ok(Err(e)) => {
                            if bad {
                                None
                            } else {
                                Some(Violation { key: "c10:in-range-rejected".into(), summary: format!("ML-DSA-{} well-formed private key rejected ({what}): {e}", p.id), replay })
                            }
                        }
                    };
                    (bad, v)
                })
                .collect();
            let nbad = results.iter().filter(|r| r.0).count() as u64;
            rep.count(&format!("mldsa{}_base{}_out_of_range", p.id, bi), nbad);
            rep.count(&format!("mldsa{}_base{}_in_range", p.id, bi), results.len() as u64 - nbad);
            rep.nontrivial_by_construction(nbad);
            rep.outcome("rejected", results.iter().filter(|r| r.0 && r.1.is_none()).count() as u64);
            rep.outcome("accepted", results.iter().filter(|r| !r.0 && r.1.is_none()).count() as u64);
            for (_, v) in results {
                if let Some(v) = v {
                    rep.violate(v);
                }
            }
        }
        rep.sample(json!({"set": p.id, "eta": p.eta, "field_bits": eb, "legal_field_values": format!("0..={maxok}"), "example_case": "s1[0][0] field := 7 (coefficient -5) on a generated key"}));
    }
    if rep.outcomes.get("rejected").copied().unwrap_or(0) == 0 && rep.violations_total == 0 {
        rep.machinery("no rejected case observed".into());
    }
}

// ------------------------------------------------------------------------------------------------ C11

pub fn c11(cx: &Ctx, rep: &mut Report) {
    rep.rule = "E1 with the Derive-centred oracle: from every private-key state (generated by both entry points, round-tripped, cloned, and compositions to the depth bound) get_public_key must return an object whose raw struct bytes (incl. the cached tr that serialisation ignores) equal the generated public key's; plus into_bytes equality with the reference and decision equality on valid / perturbed / wrong-context signatures between generated, deserialised and derived public keys. Non-trivial = verification probe through a derived or deserialised key (the suite never verifies with one).".into();
    let probes = alpha::probes_small(cx.seed, &EXTERNAL_MODES);
    run_e1_all(cx, rep, Oracles { c11: true, c01: true, ..Default::default() }, &probes, cx.tier.pick(3, 5), false, true);
    let base_seeds = alpha::seeds(cx.tier, cx.seed);
    for api in APIS {
        let p = api.p;
        // volume sweep: generated public key == public key derived from the generated private key, for counter seeds 0..n
        let n = keygen_sweep_size(cx.tier, p.id);
        let t = std::time::Instant::now();
        let bad = keygen_sweep(api, n, 0);
        rep.count("sweep:generated-vs-derived", n);
        rep.extra.insert(format!("keygen_sweep_mldsa{}", p.id), json!({"seeds": n, "tag": "kgsweep", "wall_s": t.elapsed().as_secs_f64()}));
        for (xi, _differs, inconsistent, panic) in bad {
            let replay = json!({"engine":"api","set":p.id,"ops":[{"op":"keygen_seed","seed":hex(&xi)},{"op":"derive"}]});
            if let Some(pn) = panic {
                rep.violate(Violation { key: format!("c11:sweep:panic:{}", pn.split('@').next_back().unwrap_or("").trim()), summary: format!("ML-DSA-{} seed {} (volume sweep): {pn}", p.id, hex(&xi)), replay });
            } else if inconsistent {
                rep.violate(Violation { key: "c11:sweep:derived-differs".into(), summary: format!("ML-DSA-{} seed {} (volume sweep): the public key derived from the generated private key serialises differently from the generated public key", p.id, hex(&xi)), replay });
            }
        }
        let mut seeds = base_seeds.clone();
        seeds.extend(rare_keygen_seeds(p, cx.seed, rare_cap(cx.tier)).into_iter().map(|(_, s)| s));
        for xi in &seeds {
            let want = refmodel::keygen_internal(p, xi);
            let Ok((pk_gen, sk_gen)) = (api.keygen_seed)(xi) else { continue };
            let sk_rt = sk_gen.to_bytes().ok().and_then(|b| (api.sk_from_bytes)(&b).ok().and_then(|r| r.ok()));
            let mut pks: Vec<(String, Box<dyn crate::subject::PkOps>)> = vec![("generated".into(), pk_gen)];
            if let Ok(Ok(k)) = (api.pk_from_bytes)(&want.pk) {
                pks.push(("deserialised".into(), k));
            }
            match sk_gen.derive_pk() {
                Ok(k) => pks.push(("derived(generated sk)".into(), k)),
                Err(pn) => rep.violate(Violation { key: "c11:derive-panic".into(), summary: format!("ML-DSA-{} get_public_key panicked: {}", p.id, pn.0), replay: json!({"engine":"api","set":p.id,"ops":[{"op":"keygen_seed","seed":hex(xi)},{"op":"derive"}]}) }),
            }
            if let Some(sk) = &sk_rt {
                if let Ok(k) = sk.derive_pk() {
                    pks.push(("derived(round-tripped sk)".into(), k));
                }
            }
            for (name, k) in &pks {
                rep.count("pk_bytes_equality", 1);
                if k.to_bytes().ok().as_ref() != Some(&want.pk) {
                    rep.violate(Violation { key: format!("c11:{name}:bytes-differ"), summary: format!("ML-DSA-{} {name} public key serialises differently from the reference pk (seed {})", p.id, hex(xi)), replay: json!({"engine":"api","set":p.id,"ops":[{"op":"keygen_seed","seed":hex(xi)},{"op":"derive"}]}) });
                }
            }
            // decision equality on a case list: valid, each field perturbed, wrong ctx, wrong mode
            let skc = SkCtx::new(p, &want.sk);
            let pkc = PkCtx::new(p, &want.pk);
            for pr in &probes {
                let sig = refmodel::sign(&skc, pr.mode, &pr.msg, &pr.ctx, &pr.rnd).unwrap();
                let mut variants: Vec<(String, Vec<u8>, Vec<u8>, Vec<u8>, Mode)> = vec![("valid".into(), sig.clone(), pr.msg.clone(), pr.ctx.clone(), pr.mode)];
                for (nm, pos) in [("ctilde", 0usize), ("z", p.ctilde_len() + 5), ("hint", p.sig_len - 1)] {
                    let mut s2 = sig.clone();
                    s2[pos] ^= 0x10;
                    variants.push((format!("sig-{nm}-perturbed"), s2, pr.msg.clone(), pr.ctx.clone(), pr.mode));
                }
                let mut m2 = pr.msg.clone();
                m2.push(1);
                variants.push(("msg-extended".into(), sig.clone(), m2, pr.ctx.clone(), pr.mode));
                let mut c2 = pr.ctx.clone();
                if c2.len() < 255 {
                    c2.push(9);
                } else {
                    c2[0] ^= 1;
                }
                variants.push(("wrong-ctx".into(), sig.clone(), pr.msg.clone(), c2, pr.mode));
                variants.push(("wrong-mode".into(), sig.clone(), pr.msg.clone(), pr.ctx.clone(), if pr.mode == Mode::Pure { Mode::Sha256 } else { Mode::Pure }));
                for (vn, s, m, c, mode) in &variants {
                    let want_dec = refmodel::verify(&pkc, *mode, m, c, s);
                    for (name, k) in &pks {
                        rep.count("decision_probe", 1);
                        if name != "generated" {
                            rep.nontrivial_case(fnv(format!("{}{}{}{}{:?}{}", p.id, hex(xi), name, vn, pr.mode, pr.msg.len()).as_bytes()));
                        }
                        match k.verify(*mode, m, s, c) {
                            Ok(d) if d == want_dec => rep.outcome(if d { "accept" } else { "reject" }, 1),
                            other => rep.violate(Violation {
                                key: format!("c11:{name}:decision-differs:{vn}"),
                                summary: format!("ML-DSA-{} {name} public key decides {other:?} on a {vn} signature (mode {mode:?}); reference decides {want_dec}", p.id),
                                replay: json!({"engine":"api","set":p.id,"ops":[{"op":"keygen_seed","seed":hex(xi)},{"op":"verify_with","pk":name,"mode":format!("{mode:?}"),"msg":hex(m),"ctx":hex(c),"sig":hex(s),"expect":want_dec}]}),
                            }),
                        }
                    }
                }
            }
        }
        rep.sample(json!({"set":p.id,"public_key_provenances":["generated","deserialised","derived(generated sk)","derived(round-tripped sk)"],"signature_variants":["valid","sig-ctilde-perturbed","sig-z-perturbed","sig-hint-perturbed","msg-extended","wrong-ctx","wrong-mode"]}));
    }
    rep.require_class("decision_probe");
}
