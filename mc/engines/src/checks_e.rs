//! C18: NTT-based products equal the negacyclic product mod q, without 32-bit overflow.

use crate::e7;
use crate::report::{fnv, Report, Tier, Violation};
use crate::subject::{guard, APIS};
use crate::Ctx;
use fips204::verif_hooks as hk;
use rayon::prelude::*;
use refmodel::{mod_q, Params, Poly, POLY0, Q};
use serde_json::json;

fn canon(w: &Poly) -> Poly { core::array::from_fn(|i| mod_q(i64::from(w[i])) as i32) }

/// the library's c * s pipeline as used in sign_internal: ntt(c), to_mont(ntt(s)), pointwise mont_reduce, inv_ntt
fn pipeline_cs(c: &Poly, s: &Poly) -> Poly {
    let c_hat = hk::ntt(&[*c]);
    let s_hat_mont = hk::to_mont(&hk::ntt(&[*s]));
    let prod: Poly = core::array::from_fn(|n| hk::mont_reduce(i64::from(c_hat[0][n]) * i64::from(s_hat_mont[0][n])));
    hk::inv_ntt(&[prod])[0]
}

fn viol(key: &str, summary: String, replay: serde_json::Value) -> Violation { Violation { key: format!("c18:{key}"), summary, replay } }

fn check_poly_ops(name: &str, w: &Poly) -> Option<Violation> {
    let replay = json!({"engine":"kernel","kernel":"ntt_roundtrip","class":name,"w":w.iter().enumerate().filter(|(_,&c)| c!=0).map(|(i,&c)| json!([i,c])).collect::<Vec<_>>()});
    let r = guard(|| {
        let h = hk::ntt(&[*w]);
        let back = hk::inv_ntt(&h);
        (h[0], back[0])
    });
    match r {
        Err(pn) => Some(viol(&format!("ntt:panic:{}", pn.0.split('@').next_back().unwrap_or("").trim()), format!("ntt/inv_ntt panicked on {name}: {}", pn.0), replay)),
        Ok((h, back)) => {
            if canon(&h) != refmodel::ntt(w) {
                Some(viol("ntt:differs", format!("ntt differs from Algorithm 41 (mod q) on {name}"), replay))
            } else if canon(&back) != canon(w) {
                Some(viol("inv_ntt:roundtrip", format!("inv_ntt(ntt(w)) != w mod q on {name}"), replay))
            } else if h.iter().any(|&c| i64::from(c).abs() >= 67_058_539) {
                Some(viol("ntt:magnitude", format!("ntt output exceeds the bound to_mont documents (67058539) on {name}"), replay))
            } else {
                None
            }
        }
    }
}

fn block_pattern(mag: i32, pattern: u32) -> Poly { core::array::from_fn(|i| if (pattern >> (i / 16)) & 1 == 1 { -mag } else { mag }) }

pub fn c18(cx: &Ctx, rep: &mut Report) {
    rep.rule = "(a) all 256 basis polynomials x call-site scalar alphabet: ntt == Algorithm 41 mod q, inv_ntt(ntt(p)) == p, and all 256 x 256 monomial products through the library's transform / to_mont / pointwise mont_reduce / inverse pipeline == negacyclic product; (b) all 2^16 block sign patterns (16 blocks of 16) of vectors whose every coefficient has a call site's maximal magnitude (eta, 2^12, 1023*2^13, gamma1, q-1) through ntt and the c*s pipeline with tau-sparse challenges, checked build (overflow / self-check panics); (c) mat_vec_mul(ExpandA(rho), ntt(v)) then inv_ntt for a rho alphabet == schoolbook A v; (d) the sparse-coset adversarial family: committed witness response vectors (found by bounded exhaustive search: all q residues per (polynomial, block), all T^m combinations by meet-in-the-middle) evaluated with the real kernels and through verify(); thorough re-runs the search. Oracle: schoolbook multiplication in Z_q[X]/(X^256+1) with i128; no panic. Each case is distinct; all are non-trivial (no test has a reference product).".into();
    // ---------------- (a) basis x scalars
    let scalars: Vec<i32> = vec![1, -1, 2, -2, 4, -4, 4096, -4095, 4095, 1023, 1023 * 8192, (1 << 17) - 78 - 1, -((1 << 17) - 79), 1 << 17, (1 << 19) - 121, 1 << 19, -((1 << 19) - 1), (Q - 1) as i32];
    let cases: Vec<(usize, i32)> = (0..256).flat_map(|i| scalars.iter().map(move |&s| (i, s))).collect();
    let v: Vec<Violation> = cases
        .par_iter()
        .filter_map(|&(i, s)| {
            let mut w = POLY0;
            w[i] = s;
            check_poly_ops(&format!("{s}*X^{i}"), &w)
        })
        .collect();
    rep.count("a:basis_x_scalars", cases.len() as u64);
    rep.nontrivial_by_construction(cases.len() as u64);
    for x in v {
        rep.violate(x);
    }
    // all 256 x 256 monomial products through the c*s pipeline (scalars rotate through the alphabet)
    let v: Vec<Violation> = (0..256 * 256usize)
        .into_par_iter()
        .filter_map(|ij| {
            let (i, j) = (ij / 256, ij % 256);
            let s = [1, -1, 2, -4, 4096, -4095][(i + j) % 6];
            let mut c = POLY0;
            c[i] = if (i ^ j) & 1 == 0 { 1 } else { -1 };
            let mut sp = POLY0;
            sp[j] = s;
            let replay = json!({"engine":"kernel","kernel":"pipeline_cs_monomials","i":i,"j":j,"c":c[i],"s":s});
            match guard(|| pipeline_cs(&c, &sp)) {
                Err(pn) => Some(viol("pipeline:panic", format!("c*s pipeline panicked on {}*X^{i} * {s}*X^{j}: {}", c[i], pn.0), replay)),
                Ok(got) => (canon(&got) != refmodel::schoolbook_mul(&c, &sp)).then(|| viol("pipeline:monomial-product", format!("{}*X^{i} * {s}*X^{j} through ntt/pointwise/inv_ntt is not the negacyclic product", c[i]), replay)),
            }
        })
        .collect();
    rep.count("a:monomial_products_256x256", 65536);
    rep.nontrivial_by_construction(65536);
    for x in v {
        rep.violate(x);
    }
    // ---------------- (b) extremal magnitudes, all 2^16 block sign patterns
    let mags: Vec<(&str, i32)> = vec![("eta=2", 2), ("eta=4", 4), ("t0=2^12", 4096), ("t1*2^d", 1023 * 8192), ("gamma1=2^17", 1 << 17), ("gamma1=2^19", 1 << 19), ("q-1", (Q - 1) as i32)];
    let npat: u32 = cx.tier.pick(1 << 12, 1 << 16);
    for (mname, mag) in &mags {
        let v: Vec<Violation> = (0..npat)
            .into_par_iter()
            .filter_map(|pat| {
                // quick: 2^12 patterns spread over the 16-bit space
                let pattern = if npat == 1 << 16 { pat } else { pat.wrapping_mul(0x9E37) & 0xFFFF };
                check_poly_ops(&format!("block-sign pattern {pattern:#06x} of magnitude {mname}"), &block_pattern(*mag, pattern))
            })
            .collect();
        rep.count(&format!("b:block_sign_patterns:{mname}"), u64::from(npat));
        rep.nontrivial_by_construction(u64::from(npat));
        for x in v {
            rep.violate(x);
        }
    }
    if cx.tier == Tier::Quick {
        rep.caps_hit.push("quick tier: 2^12 of the 2^16 block sign patterns per magnitude".into());
    }
    // c * s with tau-sparse challenges against extremal secrets
    for api in APIS {
        let p = api.p;
        let chals: Vec<Poly> = (0..cx.tier.pick(8u32, 64)).map(|i| refmodel::sample_in_ball(p, &refmodel::shake256(&[b"c18-challenge", &i.to_le_bytes()], p.ctilde_len()))).collect();
        let mut structured: Vec<Poly> = Vec::new();
        // tau non-zero +-1 placed on the first tau positions with all-plus / alternating signs
        structured.push(core::array::from_fn(|i| i32::from(i < p.tau)));
        structured.push(core::array::from_fn(|i| if i < p.tau { if i % 2 == 0 { 1 } else { -1 } } else { 0 }));
        structured.push(core::array::from_fn(|i| i32::from(i >= 256 - p.tau)));
        let secrets: Vec<(String, Poly)> = vec![
            ("s=+eta".into(), [p.eta as i32; 256]), ("s=-eta".into(), [-(p.eta as i32); 256]),
            ("s=alternating".into(), core::array::from_fn(|i| if i % 2 == 0 { p.eta as i32 } else { -(p.eta as i32) })),
            ("t0=+4096".into(), [4096; 256]), ("t0=-4095".into(), [-4095; 256]),
            ("t0=alternating".into(), core::array::from_fn(|i| if i % 2 == 0 { 4096 } else { -4095 })),
            ("t1*2^d max".into(), [1023 * 8192; 256]),
        ];
        let all: Vec<(usize, usize)> = (0..chals.len() + structured.len()).flat_map(|c| (0..secrets.len()).map(move |s| (c, s))).collect();
        let v: Vec<Violation> = all
            .par_iter()
            .filter_map(|&(ci, si)| {
                let c = if ci < chals.len() { &chals[ci] } else { &structured[ci - chals.len()] };
                let (sn, s) = &secrets[si];
                let replay = json!({"engine":"kernel","kernel":"pipeline_cs","set":p.id,"challenge":ci,"secret":sn});
                match guard(|| pipeline_cs(c, s)) {
                    Err(pn) => Some(viol("pipeline:panic", format!("ML-DSA-{} c*s pipeline panicked (challenge {ci}, {sn}): {}", p.id, pn.0), replay)),
                    Ok(got) => (canon(&got) != refmodel::schoolbook_mul(c, s)).then(|| viol("pipeline:product", format!("ML-DSA-{} c*s pipeline differs from the negacyclic product (challenge {ci}, {sn})", p.id), replay)),
                }
            })
            .collect();
        rep.count(&format!("b:challenge_x_extremal_secret:mldsa{}", p.id), all.len() as u64);
        rep.nontrivial_by_construction(all.len() as u64);
        for x in v {
            rep.violate(x);
        }
    }
    // ---------------- (c) real matrices
    for api in APIS {
        match api.p.id {
            44 => c18_matrix::<4, 4>(api.p, cx, rep),
            65 => c18_matrix::<6, 5>(api.p, cx, rep),
            _ => c18_matrix::<8, 7>(api.p, cx, rep),
        }
    }
    // ---------------- (f) butterfly-path family: maximise one NTT output slot (complete enumeration per layer)
    let mut growth_by_set: std::collections::HashMap<usize, Vec<crate::e8::Growth>> = std::collections::HashMap::new();
    for api in APIS {
        c18_butterfly_path(api.p, cx, rep);
        // (f2) the same objective evaluated through the subject's own transform, with two free inputs per layer (E8)
        let _ = growth_by_set.insert(api.p.id as usize, c18_forward_growth(api.p, cx, rep));
    }
    // ---------------- (g) aligned-product family: in-range matrix rows built so that every Montgomery product on a
    // chosen slot mask sits just below +-q/2 (the largest value one product can take)
    for api in APIS {
        match api.p.id {
            44 => c18_aligned::<4, 4>(api.p, cx, rep),
            65 => c18_aligned::<6, 5>(api.p, cx, rep),
            _ => c18_aligned::<8, 7>(api.p, cx, rep),
        }
    }
    // ---------------- (d) sparse-coset adversarial family
    for api in APIS {
        let p = api.p;
        let ws = e7::load_witness_list(p);
        if ws.is_empty() && p.id != 44 {
            rep.machinery(format!("no committed sparse-coset witness for ML-DSA-{}", p.id));
        }
        let mut best = 0.0f64;
        for w in &ws {
            let ev = e7::evaluate_dyn(p, &w.rho, &w.z);
            rep.count(&format!("d:witness:mldsa{}", p.id), 1);
            rep.nontrivial_case(fnv(format!("{}{}", p.id, w.name).as_bytes()));
            best = best.max(ev.max_abs_sum_over_q);
            let replay = json!({"engine":"e7","set":p.id,"rho":refmodel::hex(&w.rho),"z":e7::z_to_json(&w.z)});
            if let Some(pn) = &ev.panic {
                rep.violate(viol(&format!("sparse-coset:panic:{}", pn.split('@').next_back().unwrap_or("").trim()), format!("ML-DSA-{} witness {}: row sum {:.1} q: {pn}", p.id, w.name, ev.max_abs_sum_over_q), replay));
            } else if !ev.matches_reference {
                rep.violate(viol("sparse-coset:wrong-product", format!("ML-DSA-{} witness {}: A z through mat_vec_mul/inv_ntt differs from the reference (row sum {:.1} q; 256.25 q overflows an i32)", p.id, w.name, ev.max_abs_sum_over_q), replay));
            }
        }
        // m = 1: complete enumeration of its family for one (Q) / every (T) row and both signs
        let rho = [0x42u8; 32];
        let rows: Vec<usize> = cx.tier.pick(vec![0], (0..p.k).collect());
        for &row in &rows {
            for sign in [1i64, -1] {
                let (z, pred, n) = e7::search_m1(p, &rho, row, sign);
                let ev = e7::evaluate_dyn(p, &rho, &z);
                rep.count(&format!("d:m=1 complete:mldsa{}", p.id), n);
                rep.nontrivial_by_construction(n);
                best = best.max(ev.max_abs_sum_over_q);
                let replay = json!({"engine":"e7","set":p.id,"rho":refmodel::hex(&rho),"z":e7::z_to_json(&z)});
                if ev.panic.is_some() || !ev.matches_reference {
                    rep.violate(viol("sparse-coset:m=1", format!("ML-DSA-{} m=1 row {row} sign {sign}: predicted {pred:.1} q, panic {:?}, matches reference {}", p.id, ev.panic, ev.matches_reference), replay));
                }
            }
        }
        if cx.tier == Tier::Thorough && p.id != 44 {
            // re-run the bounded search itself (m = 8, T = 14) for two rows
            for row in [0usize, p.k - 1] {
                let sr = e7::search(p, &rho, row, 1, 8, 14);
                rep.count(&format!("d:m=8 search:mldsa{}", p.id), sr.residues_evaluated + sr.combinations_enumerated);
                if let Some(z) = sr.z {
                    let ev = e7::evaluate_dyn(p, &rho, &z);
                    best = best.max(ev.max_abs_sum_over_q);
                    let replay = json!({"engine":"e7","set":p.id,"rho":refmodel::hex(&rho),"z":e7::z_to_json(&z)});
                    if ev.panic.is_some() || !ev.matches_reference {
                        rep.violate(viol("sparse-coset:m=8", format!("ML-DSA-{} m=8 row {row}: row sum {:.1} q, panic {:?}, matches reference {}", p.id, ev.max_abs_sum_over_q, ev.panic, ev.matches_reference), replay));
                    }
                }
            }
        }
        // the constructed stress signatures through verify() against the reference (observation point named by the property)
        let pk0b = std::sync::Arc::new(refmodel::zero_t1_pk(p, &rho));
        let pk0 = refmodel::PkCtx::new(p, &pk0b);
        let mut vcases: Vec<crate::forge::VCase> = e7::load_witnesses(p).into_iter().map(|(_, c)| c).collect();
        vcases.extend(crate::forge::butterfly_cases(p, &pk0, &pk0b));
        vcases.extend(e7::slot_max_cases(p, cx.tier == Tier::Thorough).into_iter().map(|(c, _)| c));
        vcases.extend(growth_vcases(p, growth_by_set.get(&(p.id as usize)).map(|v| &v[..]).unwrap_or(&[]), &pk0, &pk0b));
        crate::checks_b::eval_vcases(api, &vcases, rep, "c18:verify");
        rep.extra.insert(format!("largest_row_sum_over_q_mldsa{}", p.id), json!(best));
        rep.sample(json!({"set":p.id,"sparse_coset_witnesses":ws.iter().map(|w| w.name.clone()).collect::<Vec<_>>(),"largest_row_sum_over_q":best,"i32_overflow_threshold_over_q":256.25}));
    }
}

/// (f) For output slot 0 (all '+' branches) and slot 255 (all '-' branches) of the forward transform, the value is
/// z[0] +- sum over the 8 layers of mont_reduce(zeta_l * z[len_l]) when z is supported on {0, 128, 64, ..., 1}: the
/// objective separates, so each layer's coefficient is chosen by COMPLETE enumeration of its range.
fn c18_butterfly_path(p: &'static Params, cx: &Ctx, rep: &mut Report) {
    let zt = hk::zeta_table_mont();
    let ranges: Vec<(String, i32, i32)> = vec![
        ("response z".into(), -((p.gamma1 - p.beta - 1) as i32), (p.gamma1 - p.beta - 1) as i32),
        ("mask y".into(), -((p.gamma1 - 1) as i32), p.gamma1 as i32),
        ("t0".into(), -4095, 4096),
        ("t1*2^d".into(), 0, 1023 * 8192),
    ];
    for (rname, lo, hi) in ranges {
        for slot in [0usize] {
            for sign in [1i64, -1] {
                let mut w = POLY0;
                let mut evals = 0u64;
                for l in 0..8 {
                    // layer l: len = 128 >> l; element 0 belongs to the first group, whose zeta index is 2^l; its partner is
                    // index len, which still holds the input coefficient when the support is {0, 128, 64, ..., 1}
                    let len = 128usize >> l;
                    let zeta = i64::from(zt[1 << l]);
                    let best = if rname == "t1*2^d" {
                        (0..1024i64).map(|v| v * 8192).map(|v| (i64::from(hk::mont_reduce(zeta * v)) * sign, v)).max().unwrap()
                    } else {
                        (i64::from(lo)..=i64::from(hi)).into_par_iter().map(|v| (i64::from(hk::mont_reduce(zeta * v)) * sign, v)).max().unwrap()
                    };
                    evals += if rname == "t1*2^d" { 1024 } else { (hi - lo + 1) as u64 };
                    w[len] = best.1 as i32;
                }
                w[0] = if sign > 0 { hi } else { lo };
                let name = format!("ML-DSA-{} butterfly-path {rname} slot {slot} sign {sign}", p.id);
                rep.count(&format!("f:butterfly_path:mldsa{}", p.id), evals);
                rep.nontrivial_by_construction(evals);
                let replay = json!({"engine":"kernel","kernel":"ntt_to_mont","set":p.id,"w":w.iter().enumerate().filter(|(_,&c)| c!=0).map(|(i,&c)| json!([i,c])).collect::<Vec<_>>()});
                match guard(|| {
                    let h = hk::ntt(&[w]);
                    let mo = hk::to_mont(&h);
                    (h[0], mo[0])
                }) {
                    Err(pn) => rep.violate(viol(&format!("butterfly-path:panic:{}", pn.0.split('@').next_back().unwrap_or("").trim()), format!("{name}: ntt/to_mont panicked: {}", pn.0), replay)),
                    Ok((h, mo)) => {
                        let peak = h.iter().map(|&c| i64::from(c).abs()).max().unwrap();
                        let e = rep.extra.entry(format!("largest_ntt_slot_over_q_mldsa{}", p.id)).or_insert(json!(0.0));
                        if peak as f64 / Q as f64 > e.as_f64().unwrap_or(0.0) {
                            *e = json!(peak as f64 / Q as f64);
                        }
                        let want = refmodel::ntt(&w);
                        let ok_ntt = canon(&h) == want;
                        let ok_mont = (0..256).all(|n| mod_q(i64::from(mo[n])) == ((i128::from(want[n]) << 32).rem_euclid(i128::from(Q))) as i64);
                        if !ok_ntt || !ok_mont {
                            rep.violate(viol("butterfly-path:wrong", format!("{name}: peak slot {:.3} q; ntt correct mod q: {ok_ntt}; to_mont congruent to x*2^32: {ok_mont}", peak as f64 / Q as f64), replay));
                        }
                    }
                }
            }
        }
    }
    let _ = cx;
}

/// E8 witnesses for this parameter set: classes "t1" (the library transforms t1 itself and applies 2^d afterwards) and "t0" (computed once per process, the transform does not depend
/// on the set) and "z" (range +-(gamma1 - beta - 1)). quick: z directly-multiplied coefficient scanned with stride 8 and
/// 2 partner candidates, t0 with 64 partners, t1 complete (1024 x 1024 per layer); thorough: everything complete except the
/// partner lists of t0 (256) and z (16).
pub fn growth_witnesses(p: &'static Params, tier: Tier) -> Result<Vec<crate::e8::Growth>, crate::e8::GrowthPanic> {
    use std::sync::OnceLock;
    static SHARED: OnceLock<Result<Vec<crate::e8::Growth>, crate::e8::GrowthPanic>> = OnceLock::new();
    let shared = SHARED.get_or_init(|| {
        let mut v = crate::e8::forward_growth("t1", 0, 1023, 1, 1, 1024, &[1, -1])?;
        v.extend(crate::e8::forward_growth("t0", -4095, 4096, 1, 1, tier.pick(64, 256), &[1, -1])?);
        Ok(v)
    });
    let mut out = shared.clone()?;
    out.extend(growth_z(p, tier)?);
    Ok(out)
}
/// the response-vector class alone
pub fn growth_z(p: &'static Params, tier: Tier) -> Result<Vec<crate::e8::Growth>, crate::e8::GrowthPanic> {
    let g = (p.gamma1 - p.beta - 1) as i32;
    crate::e8::forward_growth("z", -g, g, 1, tier.pick(8, 1), tier.pick(2, 16), &[1, -1])
}

/// (f2) forward-growth family (E8): kernel-level part
fn c18_forward_growth(p: &'static Params, cx: &Ctx, rep: &mut Report) -> Vec<crate::e8::Growth> {
    let ws = match growth_witnesses(p, cx.tier) {
        Ok(w) => w,
        Err(gp) => {
            let w: Poly = core::array::from_fn(|i| gp.coeffs[i] * gp.scale);
            rep.violate(viol(
                &format!("forward-growth:search-panic:{}", gp.panic.0.split('@').next_back().unwrap_or("").trim()),
                format!("ML-DSA-{}: the forward transform panicked on an in-range polynomial of class {} met during the E8 search: {}", p.id, gp.class, gp.panic.0),
                json!({"engine":"kernel","kernel":"ntt_to_mont","set":p.id,"w":w.iter().enumerate().filter(|(_,&c)| c!=0).map(|(i,&c)| json!([i,c])).collect::<Vec<_>>()}),
            ));
            return Vec::new();
        }
    };
    for g in &ws {
        let w = g.input();
        let name = format!("ML-DSA-{} forward-growth class {} sign {}", p.id, g.class, g.sign);
        rep.count(&format!("f2:forward_growth:mldsa{}", p.id), g.evals);
        rep.nontrivial_by_construction(g.evals);
        let replay = json!({"engine":"kernel","kernel":"ntt_to_mont","set":p.id,"w":w.iter().enumerate().filter(|(_,&c)| c!=0).map(|(i,&c)| json!([i,c])).collect::<Vec<_>>()});
        match guard(|| {
            let h = hk::ntt(&[w]);
            let mo = hk::to_mont(&h);
            (h[0], mo[0])
        }) {
            Err(pn) => rep.violate(viol(&format!("forward-growth:panic:{}", pn.0.split('@').next_back().unwrap_or("").trim()), format!("{name}: ntt/to_mont panicked (slot 0 predicted {:.4} q): {}", g.predicted as f64 / Q as f64, pn.0), replay)),
            Ok((h, mo)) => {
                let peak = h.iter().map(|&c| i64::from(c).abs()).max().unwrap();
                let e = rep.extra.entry(format!("largest_forward_ntt_output_over_q:{}:mldsa{}", g.class, p.id)).or_insert(json!(0.0));
                if peak as f64 / Q as f64 > e.as_f64().unwrap_or(0.0) {
                    *e = json!(peak as f64 / Q as f64);
                }
                let want = refmodel::ntt(&w);
                let ok_ntt = canon(&h) == want;
                let ok_mont = (0..256).all(|n| mod_q(i64::from(mo[n])) == ((i128::from(want[n]) << 32).rem_euclid(i128::from(Q))) as i64);
                if !ok_ntt || !ok_mont {
                    rep.violate(viol("forward-growth:wrong", format!("{name}: slot 0 = {:.4} q; ntt correct mod q: {ok_ntt}; to_mont congruent to x*2^32: {ok_mont}", g.actual as f64 / Q as f64), replay));
                }
                if g.actual != g.predicted {
                    rep.assumptions.push(format!("{name}: separable prediction {} differs from the assembled value {} (search objective not exactly separable for this tree; witnesses still in range)", g.predicted, g.actual));
                }
            }
        }
    }
    ws
}

/// valid zero-t1 forgeries whose response vector carries an E8 polynomial (first and last row)
pub fn growth_vcases(p: &'static Params, ws: &[crate::e8::Growth], pk0: &refmodel::PkCtx, pkb: &std::sync::Arc<Vec<u8>>) -> Vec<crate::forge::VCase> {
    let mut out = Vec::new();
    for g in ws.iter().filter(|g| g.class == "z") {
        for row in [0, p.l - 1] {
            let mut z = vec![POLY0; p.l];
            z[row] = g.coeffs;
            let mp = refmodel::format_message(refmodel::Mode::Pure, b"forward-growth", b"").unwrap();
            let sig = refmodel::forge_zero_t1(pk0, &mp, &z, &vec![POLY0; p.k], &vec![0u8; p.omega + p.k]);
            out.push(crate::forge::VCase { class: format!("D7c:forward-growth:sign{}:row{row}", g.sign), pk: pkb.clone(), mode: refmodel::Mode::Pure, msg: b"forward-growth".to_vec(), ctx: vec![], sig, intent: Some(true) });
        }
    }
    out
}

/// (g) aligned products
fn c18_aligned<const K: usize, const L: usize>(p: &'static Params, cx: &Ctx, rep: &mut Report) {
    let z: Vec<Poly> = crate::forge::small_z(p, 3).into_iter().map(|mut poly| {
        poly[0] = (p.gamma1 - p.beta - 1) as i32;
        poly
    }).collect();
    let za: [Poly; L] = core::array::from_fn(|j| z[j]);
    let z_hat = hk::ntt(&za);
    let u = hk::to_mont(&z_hat);
    let masks: Vec<(&str, Box<dyn Fn(usize) -> bool + Sync>)> = vec![
        ("all", Box::new(|_| true)), ("odd", Box::new(|n| n % 2 == 1)), ("even", Box::new(|n| n % 2 == 0)),
        ("n%4==1", Box::new(|n| n % 4 == 1)), ("n%4==2", Box::new(|n| n % 4 == 2)), ("first-half", Box::new(|n| n < 128)), ("second-half", Box::new(|n| n >= 128)),
        ("blocks-of-16-alternating", Box::new(|n| (n / 16) % 2 == 0)), ("n%8==7", Box::new(|n| n % 8 == 7)),
    ];
    let target_mag: i64 = Q / 2 - 16_400;
    let inv = |a: i64| refmodel::pow_mod(a, (Q - 2) as u64);
    let two32_inv = inv(((1i128 << 32) % i128::from(Q)) as i64);
    let _ = two32_inv;
    for (mname, mask) in &masks {
        for sign in [1i64, -1] {
            for other in [0i64, -1] {
                // `other`: value aimed at on the slots outside the mask (0, or the opposite extreme)
                let mut a = [[POLY0; L]; K];
                let mut degenerate = false;
                for k in 0..K {
                    for j in 0..L {
                        for n in 0..256 {
                            let r_target = if mask(n) { sign * target_mag } else { other * sign * target_mag };
                            let un = mod_q(i64::from(u[j][n]));
                            if un == 0 {
                                degenerate = true;
                                continue;
                            }
                            // mont_reduce(a * u_n) = a * u_n * 2^-32  ==  r_target  =>  a = r_target * 2^32 * u_n^-1
                            let av = (i128::from(mod_q(r_target)) * ((1i128 << 32) % i128::from(Q)) % i128::from(Q) * i128::from(inv(un)) % i128::from(Q)) as i64;
                            a[k][j][n] = av as i32;
                        }
                    }
                }
                if degenerate {
                    rep.machinery("aligned-product construction hit a zero NTT slot".into());
                }
                let name = format!("ML-DSA-{} aligned products mask '{mname}' sign {sign} rest {other}", p.id);
                rep.count(&format!("g:aligned_products:mldsa{}", p.id), 1);
                rep.nontrivial_by_construction(1);
                let replay = json!({"engine":"kernel","kernel":"aligned_products","set":p.id,"mask":mname,"sign":sign,"rest":other});
                let r = guard(|| {
                    let w_hat = hk::mat_vec_mul::<K, L>(&a, &z_hat);
                    let sums: Vec<i64> = w_hat.iter().map(|r| r.iter().map(|&c| i64::from(c)).sum()).collect();
                    (hk::inv_ntt(&w_hat), sums)
                });
                match r {
                    Err(pn) => rep.violate(viol(&format!("aligned:panic:{}", pn.0.split('@').next_back().unwrap_or("").trim()), format!("{name}: mat_vec_mul / inv_ntt panicked on an in-range matrix row and vector: {}", pn.0), replay)),
                    Ok((w, sums)) => {
                        let e = rep.extra.entry(format!("largest_aligned_row_sum_over_q_mldsa{}", p.id)).or_insert(json!(0.0));
                        let peak = sums.iter().map(|s| s.abs()).max().unwrap() as f64 / Q as f64;
                        if peak > e.as_f64().unwrap_or(0.0) {
                            *e = json!(peak);
                        }
                        // reference: sum_j A_kj o z_hat_j (canonical), inverse transform
                        let ok = (0..K).all(|k| {
                            let mut acc = POLY0;
                            for j in 0..L {
                                acc = refmodel::add_poly(&acc, &refmodel::multiply_ntt(&a[k][j], &canon(&z_hat[j])));
                            }
                            canon(&w[k]) == refmodel::inv_ntt(&acc)
                        });
                        if !ok {
                            rep.violate(viol("aligned:wrong-product", format!("{name}: result differs from the product mod q (row sum {peak:.1} q)"), replay));
                        }
                    }
                }
            }
        }
    }
    let _ = cx;
}

fn c18_matrix<const K: usize, const L: usize>(p: &'static Params, cx: &Ctx, rep: &mut Report) {
    let rhos: Vec<[u8; 32]> = match cx.tier {
        Tier::Quick => vec![[0u8; 32], [0xFF; 32]],
        Tier::Thorough => (0..10u8).map(|i| if i == 0 { [0u8; 32] } else if i == 1 { [0xFF; 32] } else { crate::alpha::counter32(cx.seed, "rho", u64::from(i)) }).collect(),
    };
    let g1 = p.gamma1 as i32;
    let g = (p.gamma1 - p.beta - 1) as i32;
    let mut vecs: Vec<(String, Vec<Poly>)> = Vec::new();
    for (nm, mag) in [("gamma1", g1), ("gamma1-beta-1", g), ("eta", p.eta as i32)] {
        for pat in 0..cx.tier.pick(16u32, 256) {
            let pattern = pat.wrapping_mul(0x1234_5679) & 0xFFFF;
            // y ranges over [-(gamma1-1), gamma1]: use -(mag-1) for the negative blocks at magnitude gamma1
            let poly: Poly = core::array::from_fn(|i| if (pattern >> (i / 16)) & 1 == 1 { -(mag - i32::from(mag == g1)) } else { mag });
            vecs.push((format!("{nm}:pattern{pattern:#06x}"), vec![poly; L]));
        }
    }
    let mut basis = vec![POLY0; L];
    basis[L - 1][255] = g1;
    vecs.push(("basis:last-poly-X^255*gamma1".into(), basis));
    for rho in &rhos {
        let a_ref = refmodel::expand_a(p, rho);
        let a: [[Poly; L]; K] = core::array::from_fn(|k| core::array::from_fn(|j| a_ref[k][j]));
        // the library's ExpandA must produce the same matrix
        if let Ok(a_lib) = guard(|| hk::expand_a::<false, K, L>(rho)) {
            if a_lib != a {
                rep.violate(viol("expand_a:differs", format!("ML-DSA-{} ExpandA differs from Algorithm 32 for rho {}", p.id, refmodel::hex(rho)), json!({"engine":"kernel","kernel":"expand_a","set":p.id,"rho":refmodel::hex(rho)})));
            }
        }
        let v: Vec<Violation> = vecs
            .par_iter()
            .filter_map(|(name, vv)| {
                let va: [Poly; L] = core::array::from_fn(|j| vv[j]);
                let replay = json!({"engine":"kernel","kernel":"mat_vec_mul","set":p.id,"rho":refmodel::hex(rho),"vector":name});
                match guard(|| hk::inv_ntt(&hk::mat_vec_mul::<K, L>(&a, &hk::ntt(&va)))) {
                    Err(pn) => Some(viol(&format!("matvec:panic:{}", pn.0.split('@').next_back().unwrap_or("").trim()), format!("ML-DSA-{} A*v pipeline panicked on {name}: {}", p.id, pn.0), replay)),
                    Ok(w) => {
                        // schoolbook A v: A is given in the NTT domain, so compare against sum_j invNTT(A_kj) * v_j
                        let ok = (0..K).all(|k| {
                            let mut acc = POLY0;
                            for j in 0..L {
                                acc = refmodel::add_poly(&acc, &refmodel::schoolbook_mul(&refmodel::inv_ntt(&a_ref[k][j]), &vv[j]));
                            }
                            canon(&w[k]) == acc
                        });
                        (!ok).then(|| viol("matvec:product", format!("ML-DSA-{} A*v through ntt/mat_vec_mul/inv_ntt differs from the schoolbook product on {name}", p.id), replay))
                    }
                }
            })
            .collect();
        rep.count(&format!("c:matrix_vector:mldsa{}", p.id), vecs.len() as u64);
        rep.nontrivial_by_construction(vecs.len() as u64);
        for x in v {
            rep.violate(x);
        }
    }
}

/// `mc e7gen`: run the bounded search and write the witness files (framework time / thorough maintenance)
pub fn e7gen() -> i32 {
    for p in [&refmodel::P65, &refmodel::P87, &refmodel::P44] {
        let rho = [0x42u8; 32];
        let mut ws = Vec::new();
        for (row, sign) in [(0usize, 1i64), (p.k - 1, -1)] {
            let t0 = std::time::Instant::now();
            let sr = e7::search(p, &rho, row, sign, 8, 14);
            println!("ML-DSA-{} row {row} sign {sign}: predicted {:.1} q, admissible {:?}, {:.1}s", p.id, sr.predicted_sum_over_q, sr.admissible_per_poly, t0.elapsed().as_secs_f64());
            if let Some(z) = sr.z {
                let ev = e7::evaluate_dyn(p, &rho, &z);
                println!("   exact: max row sum {:.1} q, panic {:?}, matches reference {}", ev.max_abs_sum_over_q, ev.panic, ev.matches_reference);
                ws.push((format!("m8-T14-row{row}-sign{sign}"), rho, z, ev.max_abs_sum_over_q));
            }
        }
        if !ws.is_empty() {
            e7::save_witnesses(p, &ws);
        }
    }
    0
}

// ---------------------------------------------------------------- one-off searches for rare events (results committed under witnesses/)

use crate::forge::sib_bytes;

/// `mc raresearch <sib|expands|ct> [tries]`
pub fn raresearch(what: &str, tries: u64) -> i32 {
    let root = crate::report::verif_root();
    match what {
        // SampleInBall: commitment hashes whose challenge needs the most squeezed index bytes
        "sib" => {
            let mut out = Vec::new();
            for p in refmodel::ALL_PARAMS {
                let n = if p.id == 87 { tries } else { tries / 6 };
                let chunk = 1u64 << 22;
                let mut best: Vec<(usize, u64)> = Vec::new();
                let mut base = 0u64;
                while base < n {
                    let mut b: Vec<(usize, u64)> = (base..base + chunk)
                        .into_par_iter()
                        .map(|i| {
                            let ct = refmodel::shake256(&[b"sib-search", &p.id.to_le_bytes(), &i.to_le_bytes()], p.ctilde_len());
                            (sib_bytes(p.tau, &ct), i)
                        })
                        .fold(Vec::new, |mut acc: Vec<(usize, u64)>, x| {
                            acc.push(x);
                            if acc.len() > 64 {
                                acc.sort_unstable_by(|a, b| b.cmp(a));
                                acc.truncate(4);
                            }
                            acc
                        })
                        .reduce(Vec::new, |mut a, mut b| {
                            a.append(&mut b);
                            a
                        });
                    best.append(&mut b);
                    best.sort_unstable_by(|a, b| b.cmp(a));
                    best.truncate(4);
                    base += chunk;
                }
                println!("ML-DSA-{} tau={} tries={n}: most index bytes {:?}", p.id, p.tau, best);
                for (bytes, i) in best {
                    let ct = refmodel::shake256(&[b"sib-search", &p.id.to_le_bytes(), &i.to_le_bytes()], p.ctilde_len());
                    out.push(json!({"set": p.id, "index_bytes": bytes, "c_tilde": refmodel::hex(&ct)}));
                }
            }
            std::fs::write(format!("{root}/witnesses/sample_in_ball_long.json"), serde_json::to_string_pretty(&json!({"how": "commitment hashes SHAKE256('sib-search'||set||i) whose SampleInBall squeezes the most index bytes", "witnesses": out})).unwrap()).unwrap();
        }
        // messages for which the zero-t1 forgery (rho = 42^32, z = small_z(9), no hints, pure mode, empty context) is a VALID
        // signature whose commitment hash needs the most SampleInBall index bytes
        "sibvalid" => {
            let mut out = Vec::new();
            for p in refmodel::ALL_PARAMS {
                let n = if p.id == 87 { tries } else { tries / 8 };
                let pk0 = refmodel::PkCtx::new(p, &refmodel::zero_t1_pk(p, &[0x42u8; 32]));
                let z = crate::forge::small_z(p, 9);
                let az = refmodel::az_of(&pk0, &z);
                let w1e = refmodel::w1_encode(p, &refmodel::use_hint_vec(p, &vec![POLY0; p.k], &az));
                let chunk = 1u64 << 22;
                let mut best: Vec<(usize, u64)> = Vec::new();
                let mut base = 0u64;
                while base < n {
                    let mut b: Vec<(usize, u64)> = (base..base + chunk)
                        .into_par_iter()
                        .map(|i| {
                            let mut mp = vec![0u8, 0u8];
                            mp.extend_from_slice(format!("sib-valid-{i}").as_bytes());
                            let mu = refmodel::shake256(&[&pk0.tr, &mp], 64);
                            let ct = refmodel::shake256(&[&mu, &w1e], p.ctilde_len());
                            (sib_bytes(p.tau, &ct), i)
                        })
                        .fold(Vec::new, |mut acc: Vec<(usize, u64)>, x| {
                            acc.push(x);
                            if acc.len() > 64 {
                                acc.sort_unstable_by(|a, b| b.cmp(a));
                                acc.truncate(3);
                            }
                            acc
                        })
                        .reduce(Vec::new, |mut a, mut b| {
                            a.append(&mut b);
                            a
                        });
                    best.append(&mut b);
                    best.sort_unstable_by(|a, b| b.cmp(a));
                    best.truncate(3);
                    base += chunk;
                }
                println!("ML-DSA-{} tau={} tries={n}: most index bytes among valid forgeries {:?}", p.id, p.tau, best);
                for (bytes, i) in best {
                    out.push(json!({"set": p.id, "index_bytes": bytes, "msg": format!("sib-valid-{i}")}));
                }
            }
            std::fs::write(format!("{root}/witnesses/sib_valid.json"), serde_json::to_string_pretty(&json!({"how": "messages 'sib-valid-<i>' for which the zero-t1 forgery (rho = 42^32, z = small_z(9), no hints, pure mode, empty context) is a valid signature whose commitment hash makes SampleInBall squeeze the most index bytes", "witnesses": out})).unwrap()).unwrap();
        }
        // normal-mode signing, secret-only variation (C14): private keys that differ ONLY in s1 (rho, K, tr, s2, t0 shared) see
        // the same y, w, c-tilde, c, r0, c*t0 and hints in every attempt; only z = y + c*s1 differs. Groups of such keys with
        // the same rejection sequence (as computed by the reference), containing at least one z-norm rejection, therefore
        // have an identical public transcript and must execute identical traces.
        "ctpair" => {
            let mut out = Vec::new();
            for p in refmodel::ALL_PARAMS {
                let base = refmodel::keygen_internal(p, &crate::alpha::counter32(0, "ctpair-base", 0));
                let nkeys = 24usize;
                let keys: Vec<Vec<u8>> = (0..nkeys)
                    .map(|j| {
                        let other = refmodel::keygen_internal(p, &crate::alpha::counter32(0, "ctpair-s1", j as u64));
                        refmodel::sk_encode(p, &base.rho, &base.key, &base.tr, &other.s1, &base.s2, &base.t0)
                    })
                    .collect();
                let mut found = 0;
                for mi in 0..tries {
                    let msg = format!("ctpair-{mi}");
                    let mp = refmodel::format_message(refmodel::Mode::Pure, msg.as_bytes(), b"").unwrap();
                    let seqs: Vec<(String, Vec<usize>)> = keys
                        .par_iter()
                        .map(|k| {
                            let info = refmodel::sign_internal_ctx(&refmodel::SkCtx::new(p, k), &mp, &[0u8; 32], &refmodel::SignOpts::default()).1;
                            (info.rejects.iter().map(|r| format!("{r:?}")).collect::<Vec<_>>().join(","), info.first_bad_z)
                        })
                        .collect();
                    let mut groups: std::collections::BTreeMap<&String, Vec<usize>> = Default::default();
                    for (j, s) in seqs.iter().enumerate() {
                        groups.entry(&s.0).or_default().push(j);
                    }
                    for (seq, members) in groups {
                        // the keys of a group must disagree on WHERE z first leaves the bound (that position is the secret-dependent
                        // quantity an early-exit test would reveal), while agreeing on the public rejection sequence
                        let positions: std::collections::BTreeSet<&Vec<usize>> = members.iter().map(|&j| &seqs[j].1).collect();
                        if members.len() >= 3 && positions.len() >= 2 {
                            out.push(json!({"set": p.id, "msg": msg, "rejects": seq, "s1_seed_indices": members, "distinct_first_bad_z_position_vectors": positions.len()}));
                            found += 1;
                        }
                    }
                    if found >= 4 {
                        break;
                    }
                }
                println!("ML-DSA-{}: {found} groups", p.id);
            }
            std::fs::write(format!("{root}/witnesses/ct_paired_s1.json"), serde_json::to_string_pretty(&json!({"how": "base key = KeyGen_internal(counter32(0,'ctpair-base',0)); key j = base with the s1 section of KeyGen_internal(counter32(0,'ctpair-s1',j)); pure mode, empty context, rnd = 0^32; groups of keys with the same reference rejection sequence containing a z-norm rejection", "base_seed": refmodel::hex(&crate::alpha::counter32(0, "ctpair-base", 0)), "s1_seeds": (0..24u64).map(|j| refmodel::hex(&crate::alpha::counter32(0, "ctpair-s1", j))).collect::<Vec<_>>(), "groups": out})).unwrap()).unwrap();
        }
        // ExpandA: key-generation seeds for which one RejNTTPoly call rejects the most candidates (consumes the most XOF bytes)
        "expanda" => {
            let mut out = Vec::new();
            for p in refmodel::ALL_PARAMS {
                let chunk = 1u64 << 16;
                let mut best: Vec<(usize, u64)> = Vec::new();
                let mut base = 0u64;
                while base < tries {
                    let mut b: Vec<(usize, u64)> = (base..base + chunk)
                        .into_par_iter()
                        .map(|i| {
                            let xi = crate::alpha::counter32(0, "expanda", i);
                            let seed128 = refmodel::h(&[&xi, &[p.k as u8], &[p.l as u8]], 128);
                            let mut mx = 0usize;
                            for r in 0..p.k {
                                for c in 0..p.l {
                                    let mut rp = seed128[..32].to_vec();
                                    rp.push(c as u8);
                                    rp.push(r as u8);
                                    let mut st = refmodel::RejStats::default();
                                    let _ = refmodel::rej_ntt_poly_stats(&rp, &mut st);
                                    mx = mx.max(st.bytes_used);
                                }
                            }
                            (mx, i)
                        })
                        .filter(|x| x.0 >= 768 + 12)
                        .collect();
                    best.append(&mut b);
                    best.sort_unstable_by(|a, b| b.cmp(a));
                    best.truncate(4);
                    base += chunk;
                }
                println!("ML-DSA-{} ExpandA tries={tries}: most bytes per polynomial {best:?}", p.id);
                for (bytes, i) in best {
                    out.push(json!({"set": p.id, "bytes": bytes, "rejected_candidates": (bytes - 768) / 3, "seed": refmodel::hex(&crate::alpha::counter32(0, "expanda", i))}));
                }
            }
            std::fs::write(format!("{root}/witnesses/expand_a_long.json"), serde_json::to_string_pretty(&json!({"how": "counter seeds (tag expanda) whose ExpandA contains the RejNTTPoly call that rejects the most candidates", "witnesses": out})).unwrap()).unwrap();
        }
        // ExpandS (eta = 4): seeds whose RejBoundedPoly consumes the most bytes
        "expands" => {
            let p = &refmodel::P65;
            let chunk = 1u64 << 20;
            let mut best: Vec<(usize, u64)> = Vec::new();
            let mut base = 0u64;
            while base < tries {
                let mut b: Vec<(usize, u64)> = (base..base + chunk)
                    .into_par_iter()
                    .map(|i| {
                        let xi = crate::alpha::counter32(0, "expands", i);
                        let seed128 = refmodel::h(&[&xi, &[p.k as u8], &[p.l as u8]], 128);
                        let mut mx = 0usize;
                        for r in 0..p.l + p.k {
                            let mut rp = seed128[32..96].to_vec();
                            rp.extend_from_slice(&(r as u16).to_le_bytes());
                            let mut bs = refmodel::BoundedStats::default();
                            let _ = refmodel::rej_bounded_poly_stats(p.eta, &rp, &mut bs);
                            mx = mx.max(bs.bytes_used);
                        }
                        (mx, i)
                    })
                    .filter(|x| x.0 >= 285)
                    .collect();
                best.append(&mut b);
                best.sort_unstable_by(|a, b| b.cmp(a));
                best.truncate(6);
                base += chunk;
            }
            println!("ML-DSA-65 ExpandS tries={tries}: most bytes per polynomial {best:?}");
            let out: Vec<_> = best.iter().map(|(b, i)| json!({"set": 65, "bytes": b, "seed": refmodel::hex(&crate::alpha::counter32(0, "expands", *i))})).collect();
            std::fs::write(format!("{root}/witnesses/expand_s_long.json"), serde_json::to_string_pretty(&json!({"how": "counter seeds (tag expands) whose ExpandS polynomial consumes the most SHAKE256 bytes (eta = 4)", "witnesses": out})).unwrap()).unwrap();
        }
        // constant-time test mode: RNG answers for which NTT(c) or the NTT-domain secret vectors contain a zero coefficient
        "ct" => {
            let mut out = Vec::new();
            for api in APIS {
                let p = api.p;
                let found: Vec<(u64, String)> = (0..tries)
                    .into_par_iter()
                    .filter_map(|i| {
                        let d = refmodel::shake256(&[b"ct-search", &p.id.to_le_bytes(), &i.to_le_bytes()], 64);
                        let mut rng = crate::rng::ScriptRng::oks(&[&d[..32], &d[32..]]);
                        let sig = (api.dudect)(&mut rng, b"m").ok()?.ok()?;
                        // test-mode SampleInBall: +-1 on the last tau positions, signs from the first 8 hash bytes
                        let hb = refmodel::bytes_to_bits(&refmodel::shake256(&[&sig[..p.ctilde_len()]], 8));
                        let mut c = POLY0;
                        for i in (256 - p.tau)..256 {
                            c[i] = if hb[i + p.tau - 256] == 1 { -1 } else { 1 };
                        }
                        if refmodel::ntt(&c).iter().any(|&x| x == 0) {
                            return Some((i, "ntt(c) has a zero coefficient".to_string()));
                        }
                        None
                    })
                    .collect();
                println!("ML-DSA-{}: {} witnesses in {tries} tries", p.id, found.len());
                for (i, why) in found.into_iter().take(3) {
                    let d = refmodel::shake256(&[b"ct-search", &p.id.to_le_bytes(), &i.to_le_bytes()], 64);
                    out.push(json!({"set": p.id, "why": why, "rng_answers": refmodel::hex(&d)}));
                }
            }
            std::fs::write(format!("{root}/witnesses/ct_rare_inputs.json"), serde_json::to_string_pretty(&json!({"how": "RNG answers SHAKE256('ct-search'||set||i) (xi || rnd) for dudect_keygen_sign_with_rng(msg = 'm') selected because an intermediate of the test-mode run has a zero coefficient", "witnesses": out})).unwrap()).unwrap();
        }
        _ => return 2,
    }
    0
}
