//! E1 lifecycle: explicit-state BFS over real key objects. A state is a key pair held in memory, its
//! canonical form the raw bytes of the two structs. Transitions call the real API.

use crate::alpha::Probe;
use crate::report::{fnv, Report, Violation};
use crate::rng::ScriptRng;
use crate::subject::{PkOps, SetApi, SkOps};
use rayon::prelude::*;
use refmodel::{hex, PkCtx, SkCtx};
use serde_json::json;
use std::collections::{BTreeMap, HashMap, VecDeque};

/// A state is a key pair held in memory. `pk` / `sk` are the raw bytes of the two structs (used to rebuild the objects);
/// equality and hashing use the CANONICAL form: both serialisations plus a behaviour probe that is sensitive to every
/// field serialisation does not cover (the cached tr): the object's own signature over a fixed message and whether the
/// state's public key accepts it. Two objects whose polynomials are stored as different representatives of the same
/// residues are therefore the same state, as the properties (which speak about bytes and behaviour) require.
#[derive(Clone, Debug)]
pub struct KState {
    pub pk: Vec<u8>,
    pub sk: Vec<u8>,
    pub canon: Vec<u8>,
}
impl PartialEq for KState {
    fn eq(&self, o: &Self) -> bool { self.canon == o.canon }
}
impl Eq for KState {}
impl std::hash::Hash for KState {
    fn hash<H: std::hash::Hasher>(&self, h: &mut H) { self.canon.hash(h) }
}
impl KState {
    pub fn fp(&self) -> String { format!("{:016x}", fnv(&self.canon)) }
    pub fn new(pk: &dyn PkOps, sk: &dyn SkOps) -> KState {
        let mut canon = Vec::new();
        let pkb = pk.to_bytes().unwrap_or_else(|p| format!("PANIC:{}", p.0).into_bytes());
        let skb = sk.to_bytes().unwrap_or_else(|p| format!("PANIC:{}", p.0).into_bytes());
        canon.extend_from_slice(&(pkb.len() as u32).to_le_bytes());
        canon.extend_from_slice(&pkb);
        canon.extend_from_slice(&skb);
        let mut rng = ScriptRng::ok(&[0xC5u8; 32]);
        match sk.sign(refmodel::Mode::Pure, &mut rng, b"state-probe", b"c") {
            Ok(Ok(sig)) => {
                canon.extend_from_slice(&fnv(&sig).to_le_bytes());
                canon.push(match pk.verify(refmodel::Mode::Pure, b"state-probe", &sig, b"c") {
                    Ok(true) => 1,
                    Ok(false) => 0,
                    Err(_) => 2,
                });
            }
            _ => canon.push(0xEE),
        }
        KState { pk: pk.raw(), sk: sk.raw(), canon }
    }
    /// which canonical component differs from `o`
    pub fn diff(&self, o: &KState) -> &'static str {
        let n = u32::from_le_bytes(self.canon[..4].try_into().unwrap()) as usize;
        if self.canon.len() != o.canon.len() || self.canon[..4] != o.canon[..4] {
            return "shape of the serialisation (a call failed)";
        }
        if self.canon[4..4 + n] != o.canon[4..4 + n] {
            return "public-key serialisation";
        }
        let tail = self.canon.len() - 9;
        if self.canon[4 + n..tail] != o.canon[4 + n..tail] {
            return "private-key serialisation";
        }
        if self.canon[tail..tail + 8] != o.canon[tail..tail + 8] {
            return "signature produced by the private key (cached tr / K / precomputes)";
        }
        "acceptance of the key pair's own signature by the public key (cached tr / t1 precompute)"
    }
}

#[derive(Clone, Copy, Debug, Hash, PartialEq, Eq, PartialOrd, Ord)]
pub enum Act {
    SkRoundTrip,
    PkRoundTrip,
    Derive,
    CloneSk,
    ClonePk,
}
pub const ACTS: [Act; 5] = [Act::SkRoundTrip, Act::PkRoundTrip, Act::Derive, Act::CloneSk, Act::ClonePk];
pub fn act_from_str(s: &str) -> Act {
    match s {
        "SkRoundTrip" => Act::SkRoundTrip,
        "PkRoundTrip" => Act::PkRoundTrip,
        "Derive" => Act::Derive,
        "CloneSk" => Act::CloneSk,
        "ClonePk" => Act::ClonePk,
        _ => panic!("bad act"),
    }
}

#[derive(Clone, Copy, Debug, PartialEq, Eq)]
pub enum Init {
    Seed,
    Rng,
}

pub fn init_state(api: &SetApi, xi: &[u8; 32], kind: Init) -> Result<KState, String> {
    let pair = match kind {
        Init::Seed => (api.keygen_seed)(xi).map_err(|p| format!("panic in keygen_from_seed: {}", p.0))?,
        Init::Rng => {
            let mut rng = ScriptRng::ok(xi);
            let r = (api.keygen_rng)(&mut rng).map_err(|p| format!("panic in try_keygen_with_rng: {}", p.0))?;
            r.map_err(|e| format!("try_keygen_with_rng returned Err({e}) with a working RNG"))?
        }
    };
    Ok(KState::new(pair.0.as_ref(), pair.1.as_ref()))
}

/// apply one action with the real API
pub fn step(api: &SetApi, s: &KState, a: Act) -> Result<KState, String> {
    let pk = (api.pk_from_raw)(&s.pk);
    let sk = (api.sk_from_raw)(&s.sk);
    let pe = |what: &str, p: crate::subject::Panic| format!("panic in {what}: {}", p.0);
    match a {
        Act::SkRoundTrip => {
            let b = sk.to_bytes().map_err(|p| pe("PrivateKey::into_bytes", p))?;
            let sk2 = (api.sk_from_bytes)(&b)
                .map_err(|p| pe("PrivateKey::try_from_bytes", p))?
                .map_err(|e| format!("PrivateKey::try_from_bytes rejected the library's own serialisation: {e}"))?;
            Ok(KState::new(pk.as_ref(), sk2.as_ref()))
        }
        Act::PkRoundTrip => {
            let b = pk.to_bytes().map_err(|p| pe("PublicKey::into_bytes", p))?;
            let pk2 = (api.pk_from_bytes)(&b)
                .map_err(|p| pe("PublicKey::try_from_bytes", p))?
                .map_err(|e| format!("PublicKey::try_from_bytes rejected the library's own serialisation: {e}"))?;
            Ok(KState::new(pk2.as_ref(), sk.as_ref()))
        }
        Act::Derive => {
            let pk2 = sk.derive_pk().map_err(|p| pe("get_public_key", p))?;
            Ok(KState::new(pk2.as_ref(), sk.as_ref()))
        }
        Act::CloneSk => {
            let sk2 = sk.clone_box().map_err(|p| pe("PrivateKey::clone", p))?;
            Ok(KState::new(pk.as_ref(), sk2.as_ref()))
        }
        Act::ClonePk => {
            let pk2 = pk.clone_box().map_err(|p| pe("PublicKey::clone", p))?;
            Ok(KState::new(pk2.as_ref(), sk.as_ref()))
        }
    }
}

#[derive(Clone, Copy, Default)]
pub struct Oracles {
    pub c01: bool,
    pub c03: bool,
    pub c09: bool,
    pub c11: bool,
}

pub struct E1Cfg<'a> {
    pub depth: usize,
    pub seeds: Vec<[u8; 32]>,
    pub oracles: Oracles,
    pub probes: &'a [Probe],
    /// probes used on states that are NOT one of the initial states (bug-created states): keep small
    pub history_check: bool,
    /// states originating from the first `full_probe_seeds` seeds get the whole battery, later (model-selected) seeds a slice
    pub full_probe_seeds: usize,
}

#[derive(Clone, Debug)]
pub struct Reached {
    pub origin: usize,
    pub init: Init,
    pub path: Vec<Act>,
}

pub struct E1Result {
    pub states: usize,
    pub transitions: usize,
    pub init_states: usize,
    pub per_depth: Vec<usize>,
    pub probes_run: u64,
}

fn replay_json(api: &SetApi, xi: &[u8; 32], r: &Reached, extra: serde_json::Value) -> serde_json::Value {
    json!({"engine": "e1", "set": api.p.id, "seed": hex(xi), "init": format!("{:?}", r.init),
           "path": r.path.iter().map(|a| format!("{a:?}")).collect::<Vec<_>>(), "probe": extra})
}

/// What one probe observed on one state.
#[derive(Clone, Debug, PartialEq, Eq)]
pub enum ProbeObs {
    Sig(Vec<u8>, bool),
    SignErr(String),
    Panic(String),
    RngMisuse(Vec<usize>),
}

pub fn run_probe(pk: &dyn PkOps, sk: &dyn SkOps, pr: &Probe) -> ProbeObs {
    let mut rng = ScriptRng::ok(&pr.rnd);
    let sig = match sk.sign(pr.mode, &mut rng, &pr.msg, &pr.ctx) {
        Err(p) => return ProbeObs::Panic(format!("sign: {}", p.0)),
        Ok(Err(e)) => return ProbeObs::SignErr(e.to_string()),
        Ok(Ok(s)) => s,
    };
    if rng.log != [32] {
        return ProbeObs::RngMisuse(rng.log.clone());
    }
    match pk.verify(pr.mode, &pr.msg, &sig, &pr.ctx) {
        Err(p) => ProbeObs::Panic(format!("verify: {}", p.0)),
        Ok(v) => ProbeObs::Sig(sig, v),
    }
}

/// Explore and check. Violations are pushed to `rep` with property-specific keys.
pub fn run(api: &'static SetApi, cfg: &E1Cfg, rep: &mut Report) -> E1Result {
    let p = api.p;
    let mut visited: HashMap<KState, Reached> = HashMap::new();
    let mut order: Vec<KState> = Vec::new();
    let mut queue: VecDeque<(KState, usize)> = VecDeque::new();
    let mut init_set: Vec<KState> = Vec::new();
    let mut transitions = 0usize;
    let mut per_depth = vec![0usize; cfg.depth + 1];

    // reference keys per origin seed
    let refkeys: Vec<refmodel::KeyGenOut> = cfg.seeds.par_iter().map(|xi| refmodel::keygen_internal(p, xi)).collect();

    for (i, xi) in cfg.seeds.iter().enumerate() {
        let mut pair = Vec::new();
        for kind in [Init::Seed, Init::Rng] {
            transitions += 1;
            match init_state(api, xi, kind) {
                Ok(s) => {
                    pair.push(s.clone());
                    if !visited.contains_key(&s) {
                        visited.insert(s.clone(), Reached { origin: i, init: kind, path: vec![] });
                        order.push(s.clone());
                        queue.push_back((s.clone(), 0));
                        per_depth[0] += 1;
                        init_set.push(s);
                    }
                }
                Err(e) => rep.violate(Violation {
                    key: format!("e1:init:{kind:?}:{}", e.split('@').next_back().unwrap_or("").trim()),
                    summary: format!("ML-DSA-{} key generation ({kind:?}) failed: {e}", p.id),
                    replay: json!({"engine":"e1","set":p.id,"seed":hex(xi),"init":format!("{kind:?}"),"path":[]}),
                }),
            }
        }
        if pair.len() == 2 && pair[0] != pair[1] {
            rep.violate(Violation {
                key: "e1:init:seed-vs-rng-differ".into(),
                summary: format!("ML-DSA-{}: keygen_from_seed and try_keygen_with_rng give different key objects for seed {}", p.id, hex(xi)),
                replay: json!({"engine":"e1","set":p.id,"seed":hex(xi),"init":"both","path":[]}),
            });
        }
    }
    let n_init = init_set.len();

    while let Some((s, d)) = queue.pop_front() {
        if d >= cfg.depth {
            continue;
        }
        let reached = visited[&s].clone();
        for a in ACTS {
            transitions += 1;
            let mut path = reached.path.clone();
            path.push(a);
            let r2 = Reached { origin: reached.origin, init: reached.init, path };
            match step(api, &s, a) {
                Err(e) => {
                    let prop_on = match a {
                        Act::Derive => cfg.oracles.c11 || cfg.oracles.c01,
                        _ => cfg.oracles.c09 || cfg.oracles.c01,
                    };
                    if prop_on {
                        rep.violate(Violation {
                            key: format!("e1:{a:?}:failed:{}", e.split('@').next_back().unwrap_or("").trim()),
                            summary: format!("ML-DSA-{}: {a:?} failed on a generated key (seed {}): {e}", p.id, hex(&cfg.seeds[reached.origin])),
                            replay: replay_json(api, &cfg.seeds[reached.origin], &r2, json!(null)),
                        });
                    }
                }
                Ok(s2) => {
                    if s2 != s {
                        // the graph must close: every action maps a state to itself
                        let on = match a {
                            Act::Derive => cfg.oracles.c11,
                            _ => cfg.oracles.c09,
                        };
                        if on {
                            let which = s2.diff(&s);
                            rep.violate(Violation {
                                key: format!("e1:{a:?}:state-changed:{}", which.split(' ').next().unwrap_or("")),
                                summary: format!(
                                    "ML-DSA-{}: {a:?} produced a key pair that differs from its source in the {which}, after path {:?} from seed {}",
                                    p.id, reached.path, hex(&cfg.seeds[reached.origin])
                                ),
                                replay: replay_json(api, &cfg.seeds[reached.origin], &r2, json!(null)),
                            });
                        }
                        if !visited.contains_key(&s2) {
                            visited.insert(s2.clone(), r2);
                            order.push(s2.clone());
                            per_depth[d + 1] += 1;
                            queue.push_back((s2, d + 1));
                        }
                    }
                }
            }
        }
    }

    // ---- per-state oracles
    let mut probes_run = 0u64;
    if cfg.oracles.c01 || cfg.oracles.c03 {
        let skctxs: Vec<SkCtx> = refkeys.par_iter().map(|k| SkCtx::new(p, &k.sk)).collect();
        let pkctxs: Vec<PkCtx> = refkeys.par_iter().map(|k| PkCtx::new(p, &k.pk)).collect();
        for s in &order {
            let reached = &visited[s];
            let is_init = init_set.contains(s);
            let pk = (api.pk_from_raw)(&s.pk);
            let sk = (api.sk_from_raw)(&s.sk);
            // states that a defect created get a reduced battery (they are already violations of C09/C11)
            let stride = if !is_init {
                7
            } else if reached.origin < cfg.full_probe_seeds {
                1
            } else {
                9
            };
            let plist: Vec<&Probe> = cfg.probes.iter().step_by(stride).collect();
            let skc = &skctxs[reached.origin];
            let pkc = &pkctxs[reached.origin];
            let obs: Vec<(ProbeObs, Option<Vec<u8>>)> = plist
                .par_iter()
                .map(|pr| {
                    let o = run_probe(pk.as_ref(), sk.as_ref(), pr);
                    let want = if cfg.oracles.c03 { refmodel::sign(skc, pr.mode, &pr.msg, &pr.ctx, &pr.rnd) } else { None };
                    (o, want)
                })
                .collect();
            probes_run += obs.len() as u64;
            let mut verified = 0u64;
            for (pr, (o, want)) in plist.iter().zip(obs.iter()) {
                let rj = replay_json(api, &cfg.seeds[reached.origin], reached, pr.json_full());
                let ctxd = format!("ML-DSA-{} mode {:?} |M|={} |ctx|={} path {:?}", p.id, pr.mode, pr.msg.len(), pr.ctx.len(), reached.path);
                match o {
                    ProbeObs::Panic(m) => rep.violate(Violation {
                        key: format!("e1:probe:panic:{}", m.split('@').next_back().unwrap_or("").trim()),
                        summary: format!("panic during honest sign/verify ({ctxd}): {m}"),
                        replay: rj,
                    }),
                    ProbeObs::SignErr(e) => rep.violate(Violation {
                        key: "e1:probe:sign-err".into(),
                        summary: format!("signing with a working RNG and |ctx|<=255 returned Err({e}) ({ctxd})"),
                        replay: rj,
                    }),
                    ProbeObs::RngMisuse(log) => rep.violate(Violation {
                        key: "e1:probe:rng-log".into(),
                        summary: format!("signing made RNG requests {log:?} instead of one 32-byte request ({ctxd})"),
                        replay: rj,
                    }),
                    ProbeObs::Sig(sig, v) => {
                        if *v {
                            verified += 1;
                        }
                        if cfg.oracles.c01 && !*v {
                            rep.violate(Violation {
                                key: format!("e1:probe:honest-sig-rejected:{:?}", pr.mode),
                                summary: format!("honest signature does not verify ({ctxd}), seed {}", hex(&cfg.seeds[reached.origin])),
                                replay: rj.clone(),
                            });
                        }
                        if cfg.oracles.c03 {
                            let want = want.as_ref().expect("ctx <= 255");
                            if sig != want {
                                let pos = sig.iter().zip(want.iter()).position(|(a, b)| a != b);
                                rep.violate(Violation {
                                    key: format!("e1:probe:sig-differs-from-reference:{:?}", pr.mode),
                                    summary: format!("signature differs from FIPS 204 reference at byte {pos:?} ({ctxd})"),
                                    replay: rj.clone(),
                                });
                            }
                            // cross-check: the reference verifier accepts the reference signature (model sanity)
                            if !refmodel::verify(pkc, pr.mode, &pr.msg, &pr.ctx, want) {
                                rep.machinery(format!("reference signature does not verify under reference ({ctxd})"));
                            }
                        }
                    }
                }
            }
            rep.outcome("probe_verified_true", verified);
            rep.outcome("probe_verified_false_or_failed", obs.len() as u64 - verified);

            // history independence: interleave other operations, then repeat a slice of the battery in reverse
            if cfg.history_check && cfg.oracles.c03 {
                let _ = sk.derive_pk();
                let _ = sk.clone_box();
                let mut failing = ScriptRng::new(vec![crate::rng::Answer::ErrBefore]);
                let _ = sk.sign(refmodel::Mode::Pure, &mut failing, b"x", b"");
                let _ = pk.verify(refmodel::Mode::Pure, b"x", &vec![0u8; p.sig_len], b"");
                let again: Vec<(usize, ProbeObs)> = plist
                    .iter()
                    .enumerate()
                    .rev()
                    .step_by(5)
                    .map(|(i, pr)| (i, run_probe(pk.as_ref(), sk.as_ref(), pr)))
                    .collect();
                probes_run += again.len() as u64;
                for (i, o) in again {
                    if o != obs[i].0 {
                        rep.violate(Violation {
                            key: "e1:probe:history-dependent".into(),
                            summary: format!(
                                "ML-DSA-{}: the same signing call gave a different result after other calls were interleaved (probe {:?})",
                                p.id,
                                plist[i].json()
                            ),
                            replay: replay_json(api, &cfg.seeds[reached.origin], reached, plist[i].json_full()),
                        });
                    }
                }
            }
        }
    }

    rep.sample(json!({"engine":"e1","set":p.id,"initial_states":n_init,"states":order.len(),"transitions":transitions,
        "example_state": order.first().map(|s| s.fp()), "actions": ACTS.iter().map(|a| format!("{a:?}")).collect::<Vec<_>>() }));
    let mut hist: BTreeMap<String, u64> = BTreeMap::new();
    for s in &order {
        *hist.entry(format!("depth{}", visited[s].path.len())).or_insert(0) += 1;
    }
    E1Result { states: order.len(), transitions, init_states: n_init, per_depth, probes_run }
}

// ---------------------------------------------------------------- stateright cross-check

pub mod sr {
    use super::*;
    use stateright::{Checker, Model, Property};

    #[derive(Clone)]
    pub struct LifeModel {
        pub api: &'static SetApi,
        pub inits: Vec<KState>,
    }
    impl Model for LifeModel {
        type State = KState;
        type Action = Act;
        fn init_states(&self) -> Vec<KState> { self.inits.clone() }
        fn actions(&self, _s: &KState, actions: &mut Vec<Act>) { actions.extend(ACTS); }
        fn next_state(&self, s: &KState, a: Act) -> Option<KState> { step(self.api, s, a).ok() }
        fn properties(&self) -> Vec<Property<Self>> {
            vec![Property::<Self>::always("graph closes: every reachable state is an initial state", |m, s| m.inits.contains(s))]
        }
    }
    /// returns (unique states, closes?) explored by stateright's BFS to `depth`
    pub fn explore(api: &'static SetApi, inits: Vec<KState>, depth: usize) -> (usize, bool) {
        let model = LifeModel { api, inits };
        let checker = model.checker().target_max_depth(depth + 1).threads(4).spawn_bfs().join();
        let closes = checker.discoveries().is_empty();
        (checker.unique_state_count(), closes)
    }
}
