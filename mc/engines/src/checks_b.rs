#![allow(unused_imports)]
//! C02, C05, C06, C07: verification decision tree, bit flips, domain separation, context limit, encodings.

use crate::alpha;
use crate::e3;
use crate::forge::{self, VCase};
use crate::report::{fnv, Report, Tier, Violation};
use crate::rng::ScriptRng;
use crate::subject::{PkOps, SetApi, APIS};
use crate::Ctx;
use rayon::prelude::*;
use refmodel::{hex, Mode, Params, PkCtx, Poly, SkCtx, ALL_MODES, EXTERNAL_MODES, POLY0};
use serde_json::json;
use std::collections::{BTreeMap, HashMap};
use std::sync::Arc;

/// Evaluate verification cases: subject decision vs reference decision (and the constructor's intent).
pub fn eval_vcases(api: &'static SetApi, cases: &[VCase], rep: &mut Report, tag: &str) {
    let p = api.p;
    // group by public key
    let mut pks: HashMap<u64, (Arc<Vec<u8>>, Vec<usize>)> = HashMap::new();
    for (i, c) in cases.iter().enumerate() {
        pks.entry(fnv(&c.pk)).or_insert_with(|| (c.pk.clone(), Vec::new())).1.push(i);
    }
    for (_, (pkb, idxs)) in pks {
        let pkc = PkCtx::new(p, &pkb);
        let subj: Box<dyn PkOps> = match (api.pk_from_bytes)(&pkb) {
            Ok(Ok(k)) => k,
            other => {
                rep.violate(Violation {
                    key: format!("{tag}:pk-import-failed"),
                    summary: format!("ML-DSA-{} PublicKey::try_from_bytes failed on a public-key-length byte string: {:?}", p.id, other.err().map(|p| p.0)),
                    replay: json!({"engine":"api","set":p.id,"ops":[{"op":"pk_roundtrip","pk":hex(&pkb)}]}),
                });
                continue;
            }
        };
        let res: Vec<(usize, bool, Result<bool, crate::subject::Panic>)> = idxs
            .par_iter()
            .map(|&i| {
                let c = &cases[i];
                let want = refmodel::verify(&pkc, c.mode, &c.msg, &c.ctx, &c.sig);
                let got = subj.verify(c.mode, &c.msg, &c.sig, &c.ctx);
                (i, want, got)
            })
            .collect();
        for (i, want, got) in res {
            let c = &cases[i];
            rep.count(&c.class, 1);
            rep.nontrivial_case(fnv(&[&c.sig[..], &c.msg[..], &c.ctx[..], &[c.mode as u8]].concat()));
            if let Some(intent) = c.intent {
                if intent != want {
                    rep.machinery(format!("construction intent ({intent}) disagrees with the reference ({want}) for class {}", c.class));
                    continue;
                }
            }
            match got {
                Ok(g) if g == want => rep.outcome(if g { "accept" } else { "reject" }, 1),
                Ok(g) => rep.violate(Violation {
                    key: format!("{tag}:decision:{}:{}", c.class.split(':').take(2).collect::<Vec<_>>().join(":"), if g { "wrongly-accepted" } else { "wrongly-rejected" }),
                    summary: format!("ML-DSA-{} mode {:?}: verification returned {g} where FIPS 204 Verify returns {want} (class {})", p.id, c.mode, c.class),
                    replay: c.replay(p.id, want),
                }),
                Err(pn) => rep.violate(Violation {
                    key: format!("{tag}:panic:{}", pn.0.split('@').next_back().unwrap_or("").trim()),
                    summary: format!("ML-DSA-{} mode {:?}: verification panicked on class {}: {}", p.id, c.mode, c.class, pn.0),
                    replay: c.replay(p.id, want),
                }),
            }
        }
    }
}

fn c02_cases(cx: &Ctx, p: &'static Params) -> Vec<VCase> {
    let rho = [0x42u8; 32];
    let pk0b = Arc::new(refmodel::zero_t1_pk(p, &rho));
    let pk0 = PkCtx::new(p, &pk0b);
    let kg = refmodel::keygen_internal(p, &alpha::counter32(cx.seed, "seed", 4));
    let hpk = Arc::new(kg.pk.clone());
    let skc = SkCtx::new(p, &kg.sk);
    let msgs: Vec<Vec<u8>> = match cx.tier {
        Tier::Quick => vec![alpha::msg(0, 0), alpha::msg(8, 2), alpha::msg(137, 1)],
        Tier::Thorough => alpha::msg_lengths(Tier::Thorough).iter().enumerate().map(|(i, &l)| alpha::msg(l, i % 3)).collect(),
    };
    let ctxs = [vec![], alpha::ctx(255)];
    let mut out = Vec::new();
    let positions = [0usize, 1, 127, 128, 255];
    let light = e3::structured_strings(p.k, p.omega, cx.tier.pick(1, 2));
    let heavy = e3::heavy_strings(p.k, p.omega);
    for (mi, mode) in ALL_MODES.iter().enumerate() {
        for (gi, msg) in msgs.iter().enumerate() {
            // quick: each mode meets one message shape in the expensive families, all shapes in the cheap ones
            let primary = cx.tier == Tier::Thorough || gi == mi % msgs.len();
            let ctx = &ctxs[(mi + gi) % 2];
            if primary {
                out.extend(forge::znorm_cases(p, &pk0, &pk0b, *mode, msg, ctx, &positions, cx.tier == Tier::Thorough));
                out.extend(forge::ctilde_cases(p, &pk0, &pk0b, *mode, msg, ctx));
                out.extend(forge::ctxlen_cases(p, &pk0, &pk0b, *mode, msg, &[0, 255, 256, 257, 511, 512, 513, 1024]));
                let hs: Vec<e3::HintStr> = if *mode == Mode::Pure || cx.tier == Tier::Thorough {
                    light.iter().chain(heavy.iter()).cloned().collect()
                } else {
                    light.iter().step_by(9).chain(heavy.iter().step_by(3)).cloned().collect()
                };
                if cx.tier == Tier::Quick || gi % 5 == 0 {
                    out.extend(forge::hint_cases(p, &pk0, &pk0b, *mode, msg, ctx, &hs));
                }
            }
            out.extend(forge::honest_cases(p, &skc, &hpk, *mode, msg, ctx, if primary { 2 } else { 0 }));
        }
    }
    // D7c: response vectors that drive one output of the subject's forward transform to its largest integer value (E8,
    // searched on the tree under test through the hooks); FIPS 204 accepts the forgeries
    #[cfg(feature = "kernels")]
    if let Ok(ws) = crate::checks_e::growth_z(p, cx.tier) {
        out.extend(crate::checks_e::growth_vcases(p, &ws, &pk0, &pk0b));
    }
    // D4b: commitment hashes with the longest SampleInBall rejection runs found by exhaustive search (committed witnesses)
    out.extend(forge::sib_long_cases(p, &pk0, &pk0b).0);
    // D3b: a single hint bit placed on a coefficient of w'approx that sits on a Decompose / UseHint corner
    out.extend(forge::usehint_corner_cases(p, &pk0, &pk0b, cx.tier.pick(2048, 16384)));
    // D7b: butterfly-path response vectors (one NTT output slot pushed to its maximum), FIPS 204 accepts them
    out.extend(forge::butterfly_cases(p, &pk0, &pk0b));
    // D7c: slot-maximisation family (one coefficient of the inverse-transform input at (l+1) q/2 and beyond); FIPS 204 rejects
    out.extend(crate::e7::slot_max_cases(p, cx.tier == Tier::Thorough).into_iter().map(|(c, _)| c));
    // D7: the sparse-coset stress vectors completed to signatures FIPS 204 accepts (DESIGN 3.2 / 3.1a)
    out.extend(crate::e7::load_witnesses(p).into_iter().map(|(_, c)| c));
    out
}

pub fn c02(cx: &Ctx, rep: &mut Report) {
    rep.rule = "decision tree of Alg 3/5/8 with 21 and 27 inlined, every leaf from both sides: signatures built valid-except-one-condition by zero-t1 forging (pk = rho||0 makes w'approx = A z independent of c, so c_tilde can be computed for any z and any hint section): D1 context length, D2 one z coefficient at +-{bound-2, bound-1 | bound, bound+1, gamma1-1, gamma1}, D3 every hint-section class of the E3 automaton (well-formed weight 0,1,omega-1,omega; count<Index, count>omega, repeated/descending index, non-zero padding), D4 c_tilde perturbed at every byte, D6 honest keys: honest, field-perturbed, relaxed-signer signatures whose only defect is the z norm; x 5 entry points x message shapes. Oracle: boolean equality with the spec-literal reference Verify. Every case is a distinct non-trivial (boundary/malformed/constructed) case; honest unmodified signatures are the only trivial ones.".into();
    let mut states = 0usize;
    let mut transitions = 0usize;
    for api in APIS {
        let cases = c02_cases(cx, api.p);
        {
            let pk0b = Arc::new(refmodel::zero_t1_pk(api.p, &[0x42u8; 32]));
            for e in forge::sib_long_cases(api.p, &PkCtx::new(api.p, &pk0b), &pk0b).1 {
                rep.machinery(e);
            }
            rep.count("model_selected:long-SampleInBall", cases.iter().filter(|c| c.class.starts_with("D4b")).count() as u64);
        }
        // automaton coverage of the hint-section classes that went through verify()
        let traces: Vec<Vec<e3::AState>> = cases.iter().filter(|c| c.class.starts_with("D3")).map(|c| e3::trace_alg21(api.p.k, api.p.omega, &c.sig[api.p.hint_off()..]).states).collect();
        states += e3::distinct_states(&traces);
        transitions += traces.iter().map(|t| t.len()).sum::<usize>();
        eval_vcases(api, &cases, rep, "c02");
        if let Some(c) = cases.iter().find(|c| c.class.contains("bound-1")) {
            rep.sample(json!({"set": api.p.id, "class": c.class, "mode": format!("{:?}", c.mode), "msg_len": c.msg.len(), "ctx_len": c.ctx.len(), "sig_prefix": hex(&c.sig[..48]), "fips204_accepts": c.intent}));
        }
        if let Some(c) = cases.iter().find(|c| c.class.contains("repeated-index")) {
            rep.sample(json!({"set": api.p.id, "class": c.class, "hint_section": hex(&c.sig[api.p.hint_off()..]), "fips204_accepts": c.intent}));
        }
    }
    rep.extra.insert("states".into(), json!(states));
    rep.extra.insert("transitions".into(), json!(transitions));
    rep.extra.insert("traces_validated_against_impl".into(), json!(rep.evaluations));
    rep.extra.insert("states_note".into(), json!("states = distinct abstract states (polynomial, Index, progress, order relation) of the Algorithm-21 automaton visited by the hint-section strings that were replayed through verify(); transitions = automaton steps"));
    for need in ["accept", "reject"] {
        if rep.outcomes.get(need).copied().unwrap_or(0) == 0 && rep.violations_total == 0 {
            rep.machinery(format!("no '{need}' outcome observed"));
        }
    }
}

// ------------------------------------------------------------------------------------------------ C05

struct Tuple {
    /// flip only message and context bits (signature and public-key positions are covered by the full tuples)
    light: bool,
    name: String,
    mode: Mode,
    msg: Vec<u8>,
    ctx: Vec<u8>,
    pk: Vec<u8>,
    sig: Vec<u8>,
}

pub fn c05(cx: &Ctx, rep: &mut Report) {
    rep.rule = "for each valid tuple of the tuple alphabet (sets x 4 modes x message/context shapes x keys, incl. a model-selected signature with hint weight = omega): EVERY bit of the signature, EVERY bit of the serialised public key (re-imported through try_from_bytes), every bit of the message and of the context is flipped and verify() must return false. Each (tuple, position) is a distinct case; all are non-trivial (a mutated tuple).".into();
    for api in APIS {
        let p = api.p;
        let mut tuples: Vec<Tuple> = Vec::new();
        let nkeys = cx.tier.pick(1, 2);
        for ki in 0..nkeys {
            let kg = refmodel::keygen_internal(p, &alpha::counter32(cx.seed, "seed", 5 + ki));
            let skc = SkCtx::new(p, &kg.sk);
            let shapes: Vec<(Vec<u8>, Vec<u8>)> = match cx.tier {
                Tier::Quick => vec![(alpha::msg(33, 2), alpha::ctx(3))],
                Tier::Thorough => vec![(alpha::msg(1, 2), vec![]), (alpha::msg(70, 2), alpha::ctx(3)), (alpha::msg(70, 1), alpha::ctx(255))],
            };
            let subj_sk = (api.sk_from_bytes)(&kg.sk).ok().and_then(|r| r.ok());
            for mode in EXTERNAL_MODES {
                for (msg, ctx) in &shapes {
                    let sig = refmodel::sign(&skc, mode, msg, ctx, &[ki as u8; 32]).unwrap();
                    // the library's own signature for the same inputs is a second valid tuple whenever it differs
                    if let Some(sk) = &subj_sk {
                        let mut rng = ScriptRng::ok(&[ki as u8; 32]);
                        if let Ok(Ok(s2)) = sk.sign(mode, &mut rng, msg, ctx) {
                            if s2 != sig {
                                tuples.push(Tuple { light: false, name: format!("key{ki}:{mode:?}:|M|={}:|ctx|={}:signed-by-library", msg.len(), ctx.len()), mode, msg: msg.clone(), ctx: ctx.clone(), pk: kg.pk.clone(), sig: s2 });
                            }
                        }
                    }
                    tuples.push(Tuple { light: false, name: format!("key{ki}:{mode:?}:|M|={}:|ctx|={}", msg.len(), ctx.len()), mode, msg: msg.clone(), ctx: ctx.clone(), pk: kg.pk.clone(), sig });
                }
            }
            if ki == 0 && cx.tier == Tier::Quick {
                // maximum-length context in every mode: message and context positions only
                for mode in EXTERNAL_MODES {
                    let (msg, ctx) = (alpha::msg(20, 1), alpha::ctx(255));
                    let sig = refmodel::sign(&skc, mode, &msg, &ctx, &[7u8; 32]).unwrap();
                    if let Some(sk) = &subj_sk {
                        let mut rng = ScriptRng::ok(&[7u8; 32]);
                        if let Ok(Ok(s2)) = sk.sign(mode, &mut rng, &msg, &ctx) {
                            if s2 != sig {
                                tuples.push(Tuple { light: true, name: format!("key0:{mode:?}:|M|=20:|ctx|=255:signed-by-library"), mode, msg: msg.clone(), ctx: ctx.clone(), pk: kg.pk.clone(), sig: s2 });
                            }
                        }
                    }
                    tuples.push(Tuple { light: true, name: format!("key0:{mode:?}:|M|=20:|ctx|=255"), mode, msg, ctx, pk: kg.pk.clone(), sig });
                }
            }
            if ki == 0 {
                // hard case: hint weight exactly omega (no zero padding in the hint section)
                let (cases, _) = crate::checks_a::hard_cases(p, &skc, cx.tier.pick(3000, 50_000));
                if let Some(hc) = cases.iter().find(|c| c.class == "hint_weight=omega") {
                    let sig = refmodel::sign(&skc, Mode::Pure, &hc.msg, b"", &hc.rnd).unwrap();
                    tuples.push(Tuple { light: false, name: "key0:Pure:hint_weight=omega".into(), mode: Mode::Pure, msg: hc.msg.clone(), ctx: vec![], pk: kg.pk.clone(), sig });
                } else {
                    rep.caps_hit.push(format!("ML-DSA-{}: no signature with hint weight = omega within the search cap", p.id));
                }
            }
        }
        let mut evaluated = 0;
        for t in &tuples {
            let pk = match (api.pk_from_bytes)(&t.pk) {
                Ok(Ok(k)) => k,
                _ => continue,
            };
            // premise of the property: the tuple verifies
            if !matches!(pk.verify(t.mode, &t.msg, &t.sig, &t.ctx), Ok(true)) {
                rep.outcome("tuple_skipped_premise_not_met(does_not_verify)", 1);
                continue;
            }
            evaluated += 1;
            let nsig = if t.light { 0 } else { t.sig.len() * 8 };
            let npk = if t.light { 0 } else { t.pk.len() * 8 };
            let nmsg = t.msg.len() * 8;
            let nctx = t.ctx.len() * 8;
            let total = nsig + npk + nmsg + nctx;
            let bad: Vec<(usize, String)> = (0..total)
                .into_par_iter()
                .filter_map(|i| {
                    let (what, r) = if i < nsig {
                        let mut s = t.sig.clone();
                        s[i / 8] ^= 1 << (i % 8);
                        ("sig", pk.verify(t.mode, &t.msg, &s, &t.ctx))
                    } else if i < nsig + npk {
                        let j = i - nsig;
                        let mut b = t.pk.clone();
                        b[j / 8] ^= 1 << (j % 8);
                        match (api.pk_from_bytes)(&b) {
                            Ok(Ok(k)) => ("pk", k.verify(t.mode, &t.msg, &t.sig, &t.ctx)),
                            Ok(Err(_)) => ("pk", Ok(false)), // a rejected key cannot verify anything
                            Err(pn) => ("pk", Err(pn)),
                        }
                    } else if i < nsig + npk + nmsg {
                        let j = i - nsig - npk;
                        let mut m = t.msg.clone();
                        m[j / 8] ^= 1 << (j % 8);
                        ("msg", pk.verify(t.mode, &m, &t.sig, &t.ctx))
                    } else {
                        let j = i - nsig - npk - nmsg;
                        let mut c = t.ctx.clone();
                        c[j / 8] ^= 1 << (j % 8);
                        ("ctx", pk.verify(t.mode, &t.msg, &t.sig, &c))
                    };
                    match r {
                        Ok(false) => None,
                        Ok(true) => Some((i, format!("{what}:still-verifies"))),
                        Err(pn) => Some((i, format!("{what}:panic:{}", pn.0))),
                    }
                })
                .collect();
            rep.count(&format!("mldsa{}:sig_bits", p.id), nsig as u64);
            rep.count(&format!("mldsa{}:pk_bits", p.id), npk as u64);
            rep.count(&format!("mldsa{}:msg_ctx_bits", p.id), (nmsg + nctx) as u64);
            rep.nontrivial_by_construction(total as u64);
            rep.outcome("rejected", (total - bad.len()) as u64);
            for (i, what) in bad {
                let (field, off) = if i < nsig { ("sig", i) } else if i < nsig + npk { ("pk", i - nsig) } else if i < nsig + npk + nmsg { ("msg", i - nsig - npk) } else { ("ctx", i - nsig - npk - nmsg) };
                let region = if field == "sig" {
                    let b = off / 8;
                    if b < p.ctilde_len() { "c_tilde" } else if b < p.hint_off() { "z" } else if b < p.hint_off() + p.omega { "hint-indices/padding" } else { "hint-counts" }
                } else {
                    field
                };
                rep.outcome("still_verifies_or_panic", 1);
                rep.violate(Violation {
                    key: format!("c05:{}:{region}", what.split(':').take(2).collect::<Vec<_>>().join(":")),
                    summary: format!("ML-DSA-{} tuple {}: flipping bit {} of byte {} of the {field} ({region}): {what}", p.id, t.name, off % 8, off / 8),
                    replay: json!({"engine":"api","set":p.id,"ops":[{"op":"flip_verify","pk":hex(&t.pk),"mode":format!("{:?}",t.mode),"msg":hex(&t.msg),"ctx":hex(&t.ctx),"sig":hex(&t.sig),"field":field,"bit":off}]}),
                });
            }
        }
        if evaluated == 0 {
            rep.machinery(format!("ML-DSA-{}: no valid tuple verifies; the property's premise is never met", p.id));
        }
        rep.sample(json!({"set": p.id, "tuples": tuples.iter().map(|t| t.name.clone()).collect::<Vec<_>>(), "positions_per_tuple": "every bit of sig, pk, msg, ctx"}));
    }
}

// ------------------------------------------------------------------------------------------------ C06

fn strings_upto(sigma: &[u8], n: usize) -> Vec<Vec<u8>> {
    let mut out = vec![vec![]];
    let mut layer = vec![vec![]];
    for _ in 0..n {
        let mut next = Vec::new();
        for s in &layer {
            for &c in sigma {
                let mut t: Vec<u8> = s.clone();
                t.push(c);
                next.push(t);
            }
        }
        out.extend(next.iter().cloned());
        layer = next;
    }
    out
}

#[derive(Clone)]
struct Triple {
    mode: Mode,
    ctx: Vec<u8>,
    msg: Vec<u8>,
}
impl Triple {
    /// contexts longer than 255 bytes cannot be signed; such triples only appear as alternative readings
    fn signable(&self) -> bool { self.ctx.len() <= 255 }
}

fn cross_verify(api: &'static SetApi, triples: &[Triple], family: &str, rep: &mut Report, xi: &[u8; 32]) {
    let p = api.p;
    let Ok((pk, sk)) = (api.keygen_seed)(xi) else {
        rep.machinery("keygen failed".into());
        return;
    };
    let rnd = [0x33u8; 32];
    // sign every triple with the implementation
    let sigs: Vec<Option<Vec<u8>>> = triples
        .par_iter()
        .map(|t| {
            if !t.signable() {
                return None;
            }
            let mut rng = ScriptRng::ok(&rnd);
            match sk.sign(t.mode, &mut rng, &t.msg, &t.ctx) {
                Ok(Ok(s)) => Some(s),
                _ => None,
            }
        })
        .collect();
    let n = triples.len();
    // injectivity of M' over the enumerated set: signatures pairwise distinct (DESIGN 3.3)
    let mut seen: BTreeMap<Vec<u8>, usize> = BTreeMap::new();
    for (i, s) in sigs.iter().enumerate() {
        if !triples[i].signable() {
            continue;
        }
        let Some(s) = s else {
            rep.violate(Violation { key: "c06:sign-failed".into(), summary: format!("ML-DSA-{}: signing failed for triple {i} of family {family}", p.id), replay: json!({"engine":"api","set":p.id,"ops":[]}) });
            continue;
        };
        if let Some(&j) = seen.get(s) {
            let (a, b) = (&triples[j], &triples[i]);
            rep.violate(Violation {
                key: format!("c06:{family}:same-signature-for-different-triples"),
                summary: format!("ML-DSA-{}: ({:?}, |ctx|={}, |M|={}) and ({:?}, |ctx|={}, |M|={}) produce the same signature: their formatted messages collide (triples {j} and {i} of family {family}; full inputs in the replay file)", p.id, a.mode, a.ctx.len(), a.msg.len(), b.mode, b.ctx.len(), b.msg.len()),
                replay: json!({"engine":"api","set":p.id,"ops":[{"op":"keygen_seed","seed":hex(xi)},{"op":"sign_pair_distinct","a":{"mode":format!("{:?}",a.mode),"ctx":hex(&a.ctx),"msg":hex(&a.msg)},"b":{"mode":format!("{:?}",b.mode),"ctx":hex(&b.ctx),"msg":hex(&b.msg)},"rnd":hex(&rnd)}]}),
            });
        } else {
            seen.insert(s.clone(), i);
        }
    }
    // N x N cross verification
    let bad: Vec<(usize, usize, String)> = (0..n * n)
        .into_par_iter()
        .filter_map(|ij| {
            let (i, j) = (ij / n, ij % n);
            let s = sigs[i].as_ref()?;
            let t = &triples[j];
            match pk.verify(t.mode, &t.msg, s, &t.ctx) {
                Ok(v) if v == (i == j) => None,
                Ok(v) => Some((i, j, format!("{v}"))),
                Err(pn) => Some((i, j, format!("panic {}", pn.0))),
            }
        })
        .collect();
    rep.count(&format!("{family}:cross_verifications"), (n * n) as u64);
    rep.nontrivial_by_construction((n * n - n) as u64);
    rep.outcome("accept_identical_triple", n as u64 - bad.iter().filter(|b| b.0 == b.1).count() as u64);
    rep.outcome("reject_other_triple", (n * n - n) as u64 - bad.iter().filter(|b| b.0 != b.1).count() as u64);
    for (i, j, got) in bad {
        let (a, b) = (&triples[i], &triples[j]);
        rep.violate(Violation {
            key: format!("c06:{family}:{}", if i == j { "own-triple-rejected" } else { "accepted-under-other-triple" }),
            summary: format!("ML-DSA-{}: signature for ({:?}, |ctx|={} ctx={}.., |M|={} M={}..) verified under ({:?}, |ctx|={} ctx={}.., |M|={} M={}..) gives {got}", p.id, a.mode, a.ctx.len(), hex(&a.ctx[..a.ctx.len().min(8)]), a.msg.len(), hex(&a.msg[..a.msg.len().min(8)]), b.mode, b.ctx.len(), hex(&b.ctx[..b.ctx.len().min(8)]), b.msg.len(), hex(&b.msg[..b.msg.len().min(8)])),
            replay: json!({"engine":"api","set":p.id,"ops":[{"op":"keygen_seed","seed":hex(xi)},{"op":"sign_then_verify_other","sign":{"mode":format!("{:?}",a.mode),"ctx":hex(&a.ctx),"msg":hex(&a.msg)},"verify":{"mode":format!("{:?}",b.mode),"ctx":hex(&b.ctx),"msg":hex(&b.msg)},"rnd":hex(&rnd),"expect":i==j}]}),
        });
    }
}

pub fn c06(cx: &Ctx, rep: &mut Report) {
    rep.rule = "all triples (mode in 4, ctx, M) with ctx, M over a byte alphabet containing the domain bytes 0/1, small length bytes and the first OID byte, length <= n: signatures pairwise distinct (injectivity of the formatted message, observed through signature equality for fixed key and rnd) and N x N cross-verification (accept iff identical triple); plus the long-context family (254/255-byte contexts differing in first/last byte, re-splits across the ctx/M border) and the mimic family (pure-mode messages crafted as the other mode's formatted input, every PH against every other PH). Non-trivial = every ordered pair of different triples.".into();
    for api in APIS {
        let p = api.p;
        let xi = alpha::counter32(cx.seed, "seed", 7);
        let (sigma, n): (Vec<u8>, usize) = match (cx.tier, p.id) {
            (Tier::Quick, _) => (vec![0, 1], 2),
            (Tier::Thorough, 44) => (vec![0, 1, 6], 3),
            (Tier::Thorough, _) => (vec![0, 1, 6], 2),
        };
        let strs = strings_upto(&sigma, n);
        let mut triples = Vec::new();
        for mode in EXTERNAL_MODES {
            for c in &strs {
                for m in &strs {
                    triples.push(Triple { mode, ctx: c.clone(), msg: m.clone() });
                }
            }
        }
        cross_verify(api, &triples, "alphabet", rep, &xi);
        rep.sample(json!({"set": p.id, "family": "alphabet", "sigma": sigma, "max_len": n, "triples": triples.len()}));

        // long-context family: re-splits at the 254/255 border and single-byte differences at both ends
        let c255 = alpha::ctx(255);
        let mut c255_last = c255.clone();
        c255_last[254] ^= 0x01;
        let mut c255_first = c255.clone();
        c255_first[0] ^= 0x80;
        let c254 = c255[..254].to_vec();
        let mut c254_last = c254.clone();
        c254_last[253] ^= 0x01;
        let m0 = alpha::msg(5, 2);
        let m1 = [&c255[254..], &m0[..]].concat(); // ctx=c254, M = x || M0  vs ctx = c254||x, M = M0
        let mut long = Vec::new();
        for mode in EXTERNAL_MODES {
            for c in [&c255, &c255_last, &c255_first, &c254, &c254_last] {
                for m in [&m0, &m1] {
                    long.push(Triple { mode, ctx: c.clone(), msg: m.clone() });
                }
            }
        }
        // over-long contexts as alternative readings: (ctx = C_L, M = T) against the signed (ctx = C_L[..L mod 256], M = C_L[L mod 256..] || T)
        for l in [256usize, 257, 300, 512, 513, 1024] {
            let cl = alpha::ctx(l);
            let r = l % 256;
            for mode in EXTERNAL_MODES {
                long.push(Triple { mode, ctx: cl.clone(), msg: m0.clone() });
                long.push(Triple { mode, ctx: cl[..r].to_vec(), msg: [&cl[r..], &m0[..]].concat() });
            }
        }
        cross_verify(api, &long, "long-context", rep, &xi);

        // mimic family
        let mut mimic = Vec::new();
        let ctxs: Vec<Vec<u8>> = strings_upto(&[0, 1], cx.tier.pick(1, 2));
        for m0 in [alpha::msg(0, 0), alpha::msg(9, 2)] {
            for c in &ctxs {
                mimic.push(Triple { mode: Mode::Pure, ctx: c.clone(), msg: m0.clone() });
                for ph in [Mode::Sha256, Mode::Sha512, Mode::Shake128] {
                    mimic.push(Triple { mode: ph, ctx: c.clone(), msg: m0.clone() });
                    // pure-mode message equal to OID || PH(M0): same tail as the pre-hash M'
                    let tail = [&refmodel::oid(ph)[..], &refmodel::prehash(ph, &m0)[..]].concat();
                    mimic.push(Triple { mode: Mode::Pure, ctx: c.clone(), msg: tail.clone() });
                    // pure-mode message under the empty context that spells the whole pre-hash M'
                    let whole = [&[1u8, c.len() as u8][..], &c[..], &tail[..]].concat();
                    mimic.push(Triple { mode: Mode::Pure, ctx: vec![], msg: whole });
                    // pre-hash of a message that spells a pure-mode M'
                    let spelled = [&[0u8, c.len() as u8][..], &c[..], &m0[..]].concat();
                    mimic.push(Triple { mode: ph, ctx: vec![], msg: spelled });
                    // pure-mode triples whose CONTEXT spells the pre-hash OID (argument-order / field-confusion slips)
                    mimic.push(Triple { mode: Mode::Pure, ctx: refmodel::oid(ph).to_vec(), msg: m0.clone() });
                    mimic.push(Triple { mode: Mode::Pure, ctx: tail.clone(), msg: vec![] });
                    mimic.push(Triple { mode: Mode::Pure, ctx: [&c[..], &refmodel::oid(ph)[..]].concat(), msg: refmodel::prehash(ph, &m0) });
                    // other pre-hash functions given the digest of this one as message
                    // every pre-hash function (this one included) given the digest PH(M0) itself as the message
                    for ph2 in [Mode::Sha256, Mode::Sha512, Mode::Shake128] {
                        mimic.push(Triple { mode: ph2, ctx: c.clone(), msg: refmodel::prehash(ph, &m0) });
                    }
                    mimic.push(Triple { mode: Mode::Pure, ctx: c.clone(), msg: refmodel::prehash(ph, &m0) });
                }
            }
        }
        // drop exact duplicates (identical triples would be "accept" on both)
        let mut uniq: Vec<Triple> = Vec::new();
        for t in mimic {
            if !uniq.iter().any(|u| u.mode == t.mode && u.ctx == t.ctx && u.msg == t.msg) {
                uniq.push(t);
            }
        }
        cross_verify(api, &uniq, "mimic", rep, &xi);
        rep.sample(json!({"set": p.id, "family": "mimic", "triples": uniq.len(), "example": {"mode":"Pure","ctx":"","msg":"01 || |ctx| || ctx || OID_SHA256 || SHA256(M0)"}}));
    }
    rep.require_class("alphabet:cross_verifications");
    rep.require_class("mimic:cross_verifications");
    rep.require_class("long-context:cross_verifications");
}

// ------------------------------------------------------------------------------------------------ C07

pub fn c07(cx: &Ctx, rep: &mut Report) {
    rep.rule = "EVERY context length 0..=1100 x sets x {try_sign_with_rng, try_hash_sign_with_rng x3, _internal_sign, verify, hash_verify x3, _internal_verify}: lengths <= 255 must sign, verify and (external modes) equal the reference; lengths > 255 must give Err / false, also for forged signatures made over the wrapped length byte (sigma1 = reference Sign_internal over the M' a truncating implementation would build; sigma2/sigma3 = honest signatures for the aliased short-context reading). Non-trivial = length > 255 or = 255, or a forged alias.".into();
    let maxlen = 1100usize;
    for api in APIS {
        let p = api.p;
        let xi = alpha::counter32(cx.seed, "seed", 8);
        let kg = refmodel::keygen_internal(p, &xi);
        let skc = SkCtx::new(p, &kg.sk);
        let Ok((pk, sk)) = (api.keygen_seed)(&xi) else {
            rep.machinery("keygen failed".into());
            continue;
        };
        let msg = alpha::msg(11, 2);
        let rnd = [0x44u8; 32];
        let full_modes: Vec<Mode> = ALL_MODES.to_vec();
        let alias_lens: Vec<usize> = match cx.tier {
            Tier::Quick => vec![256, 257, 300, 511, 512, 513, 768, 1024],
            Tier::Thorough => (256..=maxlen).collect(),
        };
        let viol: Vec<Violation> = (0..=maxlen)
            .into_par_iter()
            .flat_map_iter(|l| {
                let ctx = alpha::ctx(l);
                let mut v = Vec::new();
                for &mode in &full_modes {
                    let mut rng = ScriptRng::ok(&rnd);
                    let r = sk.sign(mode, &mut rng, &msg, &ctx);
                    let rp = |what: &str| json!({"engine":"api","set":p.id,"ops":[{"op":"keygen_seed","seed":hex(&xi)},{"op":"ctx_len_case","what":what,"mode":format!("{mode:?}"),"len":l,"msg":hex(&msg),"rnd":hex(&rnd)}]});
                    if l <= 255 {
                        match r {
                            Ok(Ok(s)) => {
                                let want = refmodel::sign(&skc, mode, &msg, &ctx, &rnd).unwrap();
                                if s != want {
                                    v.push(Violation { key: format!("c07:sign:{mode:?}:differs-from-reference"), summary: format!("ML-DSA-{} {mode:?} |ctx|={l}: signature differs from the reference", p.id), replay: rp("sign") });
                                }
                                if !matches!(pk.verify(mode, &msg, &s, &ctx), Ok(true)) {
                                    v.push(Violation { key: format!("c07:verify:{mode:?}:legal-ctx-rejected"), summary: format!("ML-DSA-{} {mode:?} |ctx|={l}: legal context not accepted by verification", p.id), replay: rp("verify") });
                                }
                            }
                            other => v.push(Violation { key: format!("c07:sign:{mode:?}:legal-ctx-refused"), summary: format!("ML-DSA-{} {mode:?} |ctx|={l}: signing with a legal context failed: {:?}", p.id, other.map(|r| r.err())), replay: rp("sign") }),
                        }
                    } else {
                        match r {
                            Ok(Err(_)) => {
                                if !rng.log.is_empty() && mode != Mode::Internal {
                                    // drawing randomness before refusing is allowed by the property; not flagged
                                }
                            }
                            Ok(Ok(_)) => v.push(Violation { key: format!("c07:sign:{mode:?}:overlong-ctx-signed"), summary: format!("ML-DSA-{} {mode:?}: signing succeeded with a {l}-byte context", p.id), replay: rp("sign") }),
                            Err(pn) => v.push(Violation { key: format!("c07:sign:{mode:?}:panic"), summary: format!("ML-DSA-{} {mode:?} |ctx|={l}: panic {}", p.id, pn.0), replay: rp("sign") }),
                        }
                        // sigma1: what a truncating implementation would have signed (for all lengths in pure mode, alias list otherwise)
                        if mode == Mode::Pure || alias_lens.contains(&l) {
                            let mp = forge::wrapped_m_prime(mode, &msg, &ctx);
                            let s1 = refmodel::sign_internal_ctx(&skc, &mp, &rnd, &refmodel::SignOpts::default()).0.unwrap();
                            match pk.verify(mode, &msg, &s1, &ctx) {
                                Ok(false) => {}
                                other => v.push(Violation { key: format!("c07:verify:{mode:?}:overlong-ctx-accepted"), summary: format!("ML-DSA-{} {mode:?}: verification with a {l}-byte context returned {other:?} for a signature made over the wrapped length byte", p.id), replay: rp("verify_wrapped") }),
                            }
                        }
                    }
                }
                v
            })
            .collect();
        rep.count(&format!("mldsa{}:lengths_0..=255", p.id), 256 * full_modes.len() as u64 * 2);
        rep.count(&format!("mldsa{}:lengths_256..={maxlen}", p.id), (maxlen - 255) as u64 * full_modes.len() as u64 * 2);
        rep.nontrivial_by_construction((maxlen - 254) as u64 * full_modes.len() as u64 * 2);
        for x in viol {
            rep.violate(x);
        }
        // lengths around every power of two above the sweep (a guard written as a mask or a narrower integer wraps there)
        let mut big: Vec<usize> = Vec::new();
        for k in 11..=cx.tier.pick(20u32, 24) {
            let b = 1usize << k;
            big.extend([b - 1, b, b + 1, b + 255, b + 256]);
        }
        big.extend([3 << 16, (3 << 16) + 7, 65791, 65792]);
        for &l in &big {
            let ctx = vec![0x5Au8; l];
            for &mode in &full_modes {
                let mut rng = ScriptRng::ok(&rnd);
                rep.count("big_lengths", 2);
                rep.nontrivial_case(fnv(&[&l.to_le_bytes()[..], &[mode as u8, p.id as u8]].concat()));
                let rp = json!({"engine":"api","set":p.id,"ops":[{"op":"keygen_seed","seed":hex(&xi)},{"op":"ctx_len_case","what":"big","mode":format!("{mode:?}"),"len":l,"msg":hex(&msg),"rnd":hex(&rnd)}]});
                match sk.sign(mode, &mut rng, &msg, &ctx) {
                    Ok(Err(_)) => {}
                    other => rep.violate(Violation { key: format!("c07:sign:{mode:?}:overlong-ctx-signed"), summary: format!("ML-DSA-{} {mode:?}: signing with a {l}-byte context returned {:?}", p.id, other.map(|r| r.map(|_| "a signature"))), replay: rp.clone() }),
                }
                let mp = forge::wrapped_m_prime(mode, &msg, &ctx);
                let s1 = refmodel::sign_internal_ctx(&skc, &mp, &rnd, &refmodel::SignOpts::default()).0.unwrap();
                match pk.verify(mode, &msg, &s1, &ctx) {
                    Ok(false) => {}
                    other => rep.violate(Violation { key: format!("c07:verify:{mode:?}:overlong-ctx-accepted"), summary: format!("ML-DSA-{} {mode:?}: verification with a {l}-byte context returned {other:?}", p.id), replay: rp }),
                }
            }
        }
        // contexts of 2^31 and 2^32 bytes and a little more: a guard that narrows the length to i32 / u32 wraps only there.
        // `vec![0u8; n]` is lazily zero-mapped, and a correct implementation refuses before reading a byte, so this costs
        // nothing on a correct tree. The signatures were forged once over the wrapped length byte (witnesses/c07_huge_ctx.json).
        {
            let hk = refmodel::keygen_internal(p, &HUGE_KEY_SEED);
            let (hpk, hsk) = ((api.pk_from_bytes)(&hk.pk), (api.sk_from_bytes)(&hk.sk));
            if let (Ok(Ok(hpk)), Ok(Ok(hsk))) = (hpk, hsk) {
                for l in HUGE_LENS {
                    let ctx = vec![0u8; l];
                    for &mode in &full_modes {
                        rep.count("huge_lengths(2^31,2^32)", 1);
                        rep.nontrivial_case(fnv(&[&l.to_le_bytes()[..], &[mode as u8, p.id as u8, 0xEE]].concat()));
                        let mut rng = ScriptRng::ok(&rnd);
                        let rp = json!({"engine":"api","set":p.id,"ops":[{"op":"ctx_len_case","what":"huge","mode":format!("{mode:?}"),"len":l}]});
                        match hsk.sign(mode, &mut rng, HUGE_MSG, &ctx) {
                            Ok(Err(_)) => {}
                            other => rep.violate(Violation { key: format!("c07:sign:{mode:?}:overlong-ctx-signed"), summary: format!("ML-DSA-{} {mode:?}: signing with a {l}-byte context returned {:?}", p.id, other.map(|r| r.map(|_| "a signature"))), replay: rp.clone() }),
                        }
                    }
                }
                for (mode, l, sig) in load_huge_witnesses(p) {
                    let ctx = vec![0u8; l];
                    rep.count("huge_lengths(2^31,2^32):forged-signature", 1);
                    rep.nontrivial_case(fnv(&sig));
                    match hpk.verify(mode, HUGE_MSG, &sig, &ctx) {
                        Ok(false) => {}
                        other => rep.violate(Violation {
                            key: format!("c07:verify:{mode:?}:overlong-ctx-accepted"),
                            summary: format!("ML-DSA-{} {mode:?}: verification with a {l}-byte context returned {other:?} for a signature made over the wrapped length byte", p.id),
                            replay: json!({"engine":"api","set":p.id,"ops":[{"op":"ctx_len_case","what":"huge-verify","mode":format!("{mode:?}"),"len":l}]}),
                        }),
                    }
                }
            }
        }
        // sigma2 / sigma3 aliases through honest signatures
        for &l in &alias_lens {
            let ctx = alpha::ctx(l);
            for mode in EXTERNAL_MODES {
                if mode != Mode::Pure {
                    // in pre-hash mode the message is hashed, so a short-context alias must be forged over M' directly
                    continue;
                }
                let r = l % 256;
                // sigma2 (l = 256 alias): honest signature for (ctx = ctx[..r], M = ctx[r..] || M)
                let alias_ctx = ctx[..r].to_vec();
                let alias_msg = [&ctx[r..], &msg[..]].concat();
                let s = refmodel::sign(&skc, mode, &alias_msg, &alias_ctx, &rnd).unwrap();
                rep.count("alias:honest-reading-accepted", 1);
                rep.nontrivial_case(fnv(&[&s[..], &[l as u8]].concat()));
                if !matches!(pk.verify(mode, &alias_msg, &s, &alias_ctx), Ok(true)) {
                    rep.violate(Violation { key: "c07:alias:honest-reading-rejected".into(), summary: format!("ML-DSA-{}: honest signature under a {r}-byte context rejected", p.id), replay: json!({"engine":"api","set":p.id,"ops":[]}) });
                }
                rep.count("alias:long-reading-rejected", 1);
                match pk.verify(mode, &msg, &s, &ctx) {
                    Ok(false) => rep.outcome("alias_rejected", 1),
                    other => rep.violate(Violation {
                        key: "c07:alias:short-context-signature-replayed-with-long-context".into(),
                        summary: format!("ML-DSA-{}: a signature for a {r}-byte context verifies ({other:?}) when replayed with a {l}-byte context whose length byte wraps to {r}", p.id),
                        replay: json!({"engine":"api","set":p.id,"ops":[{"op":"keygen_seed","seed":hex(&xi)},{"op":"verify_with","pk":"generated","mode":"Pure","msg":hex(&msg),"ctx":hex(&ctx),"sig":hex(&s),"expect":false}]}),
                    }),
                }
            }
        }
        rep.sample(json!({"set": p.id, "context_lengths": format!("0..={maxlen}"), "entry_points": full_modes.iter().map(|m| format!("{m:?}")).collect::<Vec<_>>(), "alias_lengths": alias_lens.len()}));
    }
}



// ---------------------------------------------------------------- huge contexts (2^31, 2^32)

pub const HUGE_KEY_SEED: [u8; 32] = [0x48u8; 32];
pub const HUGE_MSG: &[u8] = b"huge-ctx";
pub const HUGE_LENS: [usize; 6] = [(1 << 31) - 1, 1 << 31, (1 << 31) + 5, (1usize << 32) - 1, 1usize << 32, (1usize << 32) + 5];

fn huge_path() -> String { format!("{}/witnesses/c07_huge_ctx.json", crate::report::verif_root()) }

pub fn load_huge_witnesses(p: &Params) -> Vec<(Mode, usize, Vec<u8>)> {
    let Ok(text) = std::fs::read_to_string(huge_path()) else { return Vec::new() };
    let Ok(v) = serde_json::from_str::<serde_json::Value>(&text) else { return Vec::new() };
    v["witnesses"]
        .as_array()
        .map(|a| {
            a.iter()
                .filter(|w| w["set"].as_u64() == Some(u64::from(p.id)))
                .map(|w| (alpha::mode_from_str(w["mode"].as_str().unwrap()), w["len"].as_u64().unwrap() as usize, refmodel::unhex(w["sig"].as_str().unwrap())))
                .collect()
        })
        .unwrap_or_default()
}

/// `mc hugegen`: forge (reference only) the signatures over the wrapped length byte for contexts of 2^31+5 and 2^32+5 bytes
pub fn hugegen() -> i32 {
    let mut out = Vec::new();
    for p in refmodel::ALL_PARAMS {
        let kg = refmodel::keygen_internal(p, &HUGE_KEY_SEED);
        let skc = SkCtx::new(p, &kg.sk);
        for l in [(1usize << 31) + 5, (1usize << 32) + 5] {
            for mode in [Mode::Pure, Mode::Sha256] {
                let t = std::time::Instant::now();
                let ctx = vec![0u8; l];
                let mp = forge::wrapped_m_prime(mode, HUGE_MSG, &ctx);
                drop(ctx);
                let sig = refmodel::sign_internal_ctx(&skc, &mp, &[0x44u8; 32], &refmodel::SignOpts::default()).0.unwrap();
                println!("ML-DSA-{} {mode:?} len {l}: forged in {:.0}s", p.id, t.elapsed().as_secs_f64());
                out.push(json!({"set": p.id, "mode": format!("{mode:?}"), "len": l, "sig": hex(&sig)}));
            }
        }
    }
    std::fs::write(huge_path(), serde_json::to_string(&json!({"how": "reference Sign_internal over M' = domain || (len mod 256) || 0^len || tail, key seed 0x48^32, message 'huge-ctx', rnd 0x44^32", "witnesses": out})).unwrap()).unwrap();
    0
}
