//! C02, C05, C06, C07, C08: verification decision tree, bit flips, domain separation, context limit, encodings.

use crate::alpha;
use crate::e3;
use crate::forge::{self, VCase};
use crate::report::{fnv, Report, Tier, Violation};
use crate::rng::ScriptRng;
use crate::subject::{PkOps, SetApi, APIS};
use crate::Ctx;
use fips204::verif_hooks as hk;
use rayon::prelude::*;
use refmodel::{hex, Mode, Params, PkCtx, Poly, SkCtx, ALL_MODES, EXTERNAL_MODES, POLY0};
use serde_json::json;
use std::collections::{BTreeMap, HashMap};
use std::sync::Arc;

/// Evaluate verification cases: subject decision vs reference decision (and the constructor's intent).
pub fn eval_vcases(api: &'static SetApi, cases: &[VCase], rep: &mut Report, tag: &str) {
    let p = api.p;
    // group by public key
    let mut pks: HashMap<u64, (Arc<Vec<u8>>, Vec<usize>)> = HashMap::new();
    for (i, c) in cases.iter().enumerate() {
        pks.entry(fnv(&c.pk)).or_insert_with(|| (c.pk.clone(), Vec::new())).1.push(i);
    }
    for (_, (pkb, idxs)) in pks {
        let pkc = PkCtx::new(p, &pkb);
        let subj: Box<dyn PkOps> = match (api.pk_from_bytes)(&pkb) {
            Ok(Ok(k)) => k,
            other => {
                rep.violate(Violation {
                    key: format!("{tag}:pk-import-failed"),
                    summary: format!("ML-DSA-{} PublicKey::try_from_bytes failed on a public-key-length byte string: {:?}", p.id, other.err().map(|p| p.0)),
                    replay: json!({"engine":"api","set":p.id,"ops":[{"op":"pk_roundtrip","pk":hex(&pkb)}]}),
                });
                continue;
            }
        };
        let res: Vec<(usize, bool, Result<bool, crate::subject::Panic>)> = idxs
            .par_iter()
            .map(|&i| {
                let c = &cases[i];
                let want = refmodel::verify(&pkc, c.mode, &c.msg, &c.ctx, &c.sig);
                let got = subj.verify(c.mode, &c.msg, &c.sig, &c.ctx);
                (i, want, got)
            })
            .collect();
        for (i, want, got) in res {
            let c = &cases[i];
            rep.count(&c.class, 1);
            rep.nontrivial_case(fnv(&[&c.sig[..], &c.msg[..], &c.ctx[..], &[c.mode as u8]].concat()));
            if let Some(intent) = c.intent {
                if intent != want {
                    rep.machinery(format!("construction intent ({intent}) disagrees with the reference ({want}) for class {}", c.class));
                    continue;
                }
            }
            match got {
                Ok(g) if g == want => rep.outcome(if g { "accept" } else { "reject" }, 1),
                Ok(g) => rep.violate(Violation {
                    key: format!("{tag}:decision:{}:{}", c.class.split(':').take(2).collect::<Vec<_>>().join(":"), if g { "wrongly-accepted" } else { "wrongly-rejected" }),
                    summary: format!("ML-DSA-{} mode {:?}: verification returned {g} where FIPS 204 Verify returns {want} (class {})", p.id, c.mode, c.class),
                    replay: c.replay(p.id, want),
                }),
                Err(pn) => rep.violate(Violation {
                    key: format!("{tag}:panic:{}", pn.0.split('@').next_back().unwrap_or("").trim()),
                    summary: format!("ML-DSA-{} mode {:?}: verification panicked on class {}: {}", p.id, c.mode, c.class, pn.0),
                    replay: c.replay(p.id, want),
                }),
            }
        }
    }
}

fn c02_cases(cx: &Ctx, p: &'static Params) -> Vec<VCase> {
    let rho = [0x42u8; 32];
    let pk0b = Arc::new(refmodel::zero_t1_pk(p, &rho));
    let pk0 = PkCtx::new(p, &pk0b);
    let kg = refmodel::keygen_internal(p, &alpha::counter32(cx.seed, "seed", 4));
    let hpk = Arc::new(kg.pk.clone());
    let skc = SkCtx::new(p, &kg.sk);
    let msgs: Vec<Vec<u8>> = match cx.tier {
        Tier::Quick => vec![alpha::msg(0, 0), alpha::msg(8, 2), alpha::msg(137, 1)],
        Tier::Thorough => alpha::msg_lengths(Tier::Thorough).iter().enumerate().map(|(i, &l)| alpha::msg(l, i % 3)).collect(),
    };
    let ctxs = [vec![], alpha::ctx(255)];
    let mut out = Vec::new();
    let positions = [0usize, 1, 127, 128, 255];
    let light = e3::structured_strings(p.k, p.omega, cx.tier.pick(1, 2));
    let heavy = e3::heavy_strings(p.k, p.omega);
    for (mi, mode) in ALL_MODES.iter().enumerate() {
        for (gi, msg) in msgs.iter().enumerate() {
            // quick: each mode meets one message shape in the expensive families, all shapes in the cheap ones
            let primary = cx.tier == Tier::Thorough || gi == mi % msgs.len();
            let ctx = &ctxs[(mi + gi) % 2];
            if primary {
                out.extend(forge::znorm_cases(p, &pk0, &pk0b, *mode, msg, ctx, &positions, cx.tier == Tier::Thorough));
                out.extend(forge::ctilde_cases(p, &pk0, &pk0b, *mode, msg, ctx));
                out.extend(forge::ctxlen_cases(p, &pk0, &pk0b, *mode, msg, &[0, 255, 256, 257, 511, 512, 513, 1024]));
                let hs: Vec<e3::HintStr> = if *mode == Mode::Pure || cx.tier == Tier::Thorough {
                    light.iter().chain(heavy.iter()).cloned().collect()
                } else {
                    light.iter().step_by(9).chain(heavy.iter().step_by(3)).cloned().collect()
                };
                if cx.tier == Tier::Quick || gi % 5 == 0 {
                    out.extend(forge::hint_cases(p, &pk0, &pk0b, *mode, msg, ctx, &hs));
                }
            }
            out.extend(forge::honest_cases(p, &skc, &hpk, *mode, msg, ctx, if primary { 2 } else { 0 }));
        }
    }
    // D3b: a single hint bit placed on a coefficient of w'approx that sits on a Decompose / UseHint corner
    out.extend(forge::usehint_corner_cases(p, &pk0, &pk0b, cx.tier.pick(2048, 16384)));
    // D7b: butterfly-path response vectors (one NTT output slot pushed to its maximum), FIPS 204 accepts them
    out.extend(forge::butterfly_cases(p, &pk0, &pk0b));
    // D7c: slot-maximisation family (one coefficient of the inverse-transform input at (l+1) q/2 and beyond); FIPS 204 rejects
    out.extend(crate::e7::slot_max_cases(p, cx.tier == Tier::Thorough).into_iter().map(|(c, _)| c));
    // D7: the sparse-coset stress vectors completed to signatures FIPS 204 accepts (DESIGN 3.2 / 3.1a)
    out.extend(crate::e7::load_witnesses(p).into_iter().map(|(_, c)| c));
    out
}

pub fn c02(cx: &Ctx, rep: &mut Report) {
    rep.rule = "decision tree of Alg 3/5/8 with 21 and 27 inlined, every leaf from both sides: signatures built valid-except-one-condition by zero-t1 forging (pk = rho||0 makes w'approx = A z independent of c, so c_tilde can be computed for any z and any hint section): D1 context length, D2 one z coefficient at +-{bound-2, bound-1 | bound, bound+1, gamma1-1, gamma1}, D3 every hint-section class of the E3 automaton (well-formed weight 0,1,omega-1,omega; count<Index, count>omega, repeated/descending index, non-zero padding), D4 c_tilde perturbed at every byte, D6 honest keys: honest, field-perturbed, relaxed-signer signatures whose only defect is the z norm; x 5 entry points x message shapes. Oracle: boolean equality with the spec-literal reference Verify. Every case is a distinct non-trivial (boundary/malformed/constructed) case; honest unmodified signatures are the only trivial ones.".into();
    let mut states = 0usize;
    let mut transitions = 0usize;
    for api in APIS {
        let cases = c02_cases(cx, api.p);
        // automaton coverage of the hint-section classes that went through verify()
        let traces: Vec<Vec<e3::AState>> = cases.iter().filter(|c| c.class.starts_with("D3")).map(|c| e3::trace_alg21(api.p.k, api.p.omega, &c.sig[api.p.hint_off()..]).states).collect();
        states += e3::distinct_states(&traces);
        transitions += traces.iter().map(|t| t.len()).sum::<usize>();
        eval_vcases(api, &cases, rep, "c02");
        if let Some(c) = cases.iter().find(|c| c.class.contains("bound-1")) {
            rep.sample(json!({"set": api.p.id, "class": c.class, "mode": format!("{:?}", c.mode), "msg_len": c.msg.len(), "ctx_len": c.ctx.len(), "sig_prefix": hex(&c.sig[..48]), "fips204_accepts": c.intent}));
        }
        if let Some(c) = cases.iter().find(|c| c.class.contains("repeated-index")) {
            rep.sample(json!({"set": api.p.id, "class": c.class, "hint_section": hex(&c.sig[api.p.hint_off()..]), "fips204_accepts": c.intent}));
        }
    }
    rep.extra.insert("states".into(), json!(states));
    rep.extra.insert("transitions".into(), json!(transitions));
    rep.extra.insert("traces_validated_against_impl".into(), json!(rep.evaluations));
    rep.extra.insert("states_note".into(), json!("states = distinct abstract states (polynomial, Index, progress, order relation) of the Algorithm-21 automaton visited by the hint-section strings that were replayed through verify(); transitions = automaton steps"));
    for need in ["accept", "reject"] {
        if rep.outcomes.get(need).copied().unwrap_or(0) == 0 && rep.violations_total == 0 {
            rep.machinery(format!("no '{need}' outcome observed"));
        }
    }
}

// ------------------------------------------------------------------------------------------------ C05

struct Tuple {
    /// flip only message and context bits (signature and public-key positions are covered by the full tuples)
    light: bool,
    name: String,
    mode: Mode,
    msg: Vec<u8>,
    ctx: Vec<u8>,
    pk: Vec<u8>,
    sig: Vec<u8>,
}

pub fn c05(cx: &Ctx, rep: &mut Report) {
    rep.rule = "for each valid tuple of the tuple alphabet (sets x 4 modes x message/context shapes x keys, incl. a model-selected signature with hint weight = omega): EVERY bit of the signature, EVERY bit of the serialised public key (re-imported through try_from_bytes), every bit of the message and of the context is flipped and verify() must return false. Each (tuple, position) is a distinct case; all are non-trivial (a mutated tuple).".into();
    for api in APIS {
        let p = api.p;
        let mut tuples: Vec<Tuple> = Vec::new();
        let nkeys = cx.tier.pick(1, 2);
        for ki in 0..nkeys {
            let kg = refmodel::keygen_internal(p, &alpha::counter32(cx.seed, "seed", 5 + ki));
            let skc = SkCtx::new(p, &kg.sk);
            let shapes: Vec<(Vec<u8>, Vec<u8>)> = match cx.tier {
                Tier::Quick => vec![(alpha::msg(33, 2), alpha::ctx(3))],
                Tier::Thorough => vec![(alpha::msg(1, 2), vec![]), (alpha::msg(70, 2), alpha::ctx(3)), (alpha::msg(70, 1), alpha::ctx(255))],
            };
            let subj_sk = (api.sk_from_bytes)(&kg.sk).ok().and_then(|r| r.ok());
            for mode in EXTERNAL_MODES {
                for (msg, ctx) in &shapes {
                    let sig = refmodel::sign(&skc, mode, msg, ctx, &[ki as u8; 32]).unwrap();
                    // the library's own signature for the same inputs is a second valid tuple whenever it differs
                    if let Some(sk) = &subj_sk {
                        let mut rng = ScriptRng::ok(&[ki as u8; 32]);
                        if let Ok(Ok(s2)) = sk.sign(mode, &mut rng, msg, ctx) {
                            if s2 != sig {
                                tuples.push(Tuple { light: false, name: format!("key{ki}:{mode:?}:|M|={}:|ctx|={}:signed-by-library", msg.len(), ctx.len()), mode, msg: msg.clone(), ctx: ctx.clone(), pk: kg.pk.clone(), sig: s2 });
                            }
                        }
                    }
                    tuples.push(Tuple { light: false, name: format!("key{ki}:{mode:?}:|M|={}:|ctx|={}", msg.len(), ctx.len()), mode, msg: msg.clone(), ctx: ctx.clone(), pk: kg.pk.clone(), sig });
                }
            }
            if ki == 0 && cx.tier == Tier::Quick {
                // maximum-length context in every mode: message and context positions only
                for mode in EXTERNAL_MODES {
                    let (msg, ctx) = (alpha::msg(20, 1), alpha::ctx(255));
                    let sig = refmodel::sign(&skc, mode, &msg, &ctx, &[7u8; 32]).unwrap();
                    if let Some(sk) = &subj_sk {
                        let mut rng = ScriptRng::ok(&[7u8; 32]);
                        if let Ok(Ok(s2)) = sk.sign(mode, &mut rng, &msg, &ctx) {
                            if s2 != sig {
                                tuples.push(Tuple { light: true, name: format!("key0:{mode:?}:|M|=20:|ctx|=255:signed-by-library"), mode, msg: msg.clone(), ctx: ctx.clone(), pk: kg.pk.clone(), sig: s2 });
                            }
                        }
                    }
                    tuples.push(Tuple { light: true, name: format!("key0:{mode:?}:|M|=20:|ctx|=255"), mode, msg, ctx, pk: kg.pk.clone(), sig });
                }
            }
            if ki == 0 {
                // hard case: hint weight exactly omega (no zero padding in the hint section)
                let (cases, _) = crate::checks_a::hard_cases(p, &skc, cx.tier.pick(3000, 50_000));
                if let Some(hc) = cases.iter().find(|c| c.class == "hint_weight=omega") {
                    let sig = refmodel::sign(&skc, Mode::Pure, &hc.msg, b"", &hc.rnd).unwrap();
                    tuples.push(Tuple { light: false, name: "key0:Pure:hint_weight=omega".into(), mode: Mode::Pure, msg: hc.msg.clone(), ctx: vec![], pk: kg.pk.clone(), sig });
                } else {
                    rep.caps_hit.push(format!("ML-DSA-{}: no signature with hint weight = omega within the search cap", p.id));
                }
            }
        }
        let mut evaluated = 0;
        for t in &tuples {
            let pk = match (api.pk_from_bytes)(&t.pk) {
                Ok(Ok(k)) => k,
                _ => continue,
            };
            // premise of the property: the tuple verifies
            if !matches!(pk.verify(t.mode, &t.msg, &t.sig, &t.ctx), Ok(true)) {
                rep.outcome("tuple_skipped_premise_not_met(does_not_verify)", 1);
                continue;
            }
            evaluated += 1;
            let nsig = if t.light { 0 } else { t.sig.len() * 8 };
            let npk = if t.light { 0 } else { t.pk.len() * 8 };
            let nmsg = t.msg.len() * 8;
            let nctx = t.ctx.len() * 8;
            let total = nsig + npk + nmsg + nctx;
            let bad: Vec<(usize, String)> = (0..total)
                .into_par_iter()
                .filter_map(|i| {
                    let (what, r) = if i < nsig {
                        let mut s = t.sig.clone();
                        s[i / 8] ^= 1 << (i % 8);
                        ("sig", pk.verify(t.mode, &t.msg, &s, &t.ctx))
                    } else if i < nsig + npk {
                        let j = i - nsig;
                        let mut b = t.pk.clone();
                        b[j / 8] ^= 1 << (j % 8);
                        match (api.pk_from_bytes)(&b) {
                            Ok(Ok(k)) => ("pk", k.verify(t.mode, &t.msg, &t.sig, &t.ctx)),
                            Ok(Err(_)) => ("pk", Ok(false)), // a rejected key cannot verify anything
                            Err(pn) => ("pk", Err(pn)),
                        }
                    } else if i < nsig + npk + nmsg {
                        let j = i - nsig - npk;
                        let mut m = t.msg.clone();
                        m[j / 8] ^= 1 << (j % 8);
                        ("msg", pk.verify(t.mode, &m, &t.sig, &t.ctx))
                    } else {
                        let j = i - nsig - npk - nmsg;
                        let mut c = t.ctx.clone();
                        c[j / 8] ^= 1 << (j % 8);
                        ("ctx", pk.verify(t.mode, &t.msg, &t.sig, &c))
                    };
                    match r {
                        Ok(false) => None,
                        Ok(true) => Some((i, format!("{what}:still-verifies"))),
                        Err(pn) => Some((i, format!("{what}:panic:{}", pn.0))),
                    }
                })
                .collect();
            rep.count(&format!("mldsa{}:sig_bits", p.id), nsig as u64);
            rep.count(&format!("mldsa{}:pk_bits", p.id), npk as u64);
            rep.count(&format!("mldsa{}:msg_ctx_bits", p.id), (nmsg + nctx) as u64);
            rep.nontrivial_by_construction(total as u64);
            rep.outcome("rejected", (total - bad.len()) as u64);
            for (i, what) in bad {
                let (field, off) = if i < nsig { ("sig", i) } else if i < nsig + npk { ("pk", i - nsig) } else if i < nsig + npk + nmsg { ("msg", i - nsig - npk) } else { ("ctx", i - nsig - npk - nmsg) };
                let region = if field == "sig" {
                    let b = off / 8;
                    if b < p.ctilde_len() { "c_tilde" } else if b < p.hint_off() { "z" } else if b < p.hint_off() + p.omega { "hint-indices/padding" } else { "hint-counts" }
                } else {
                    field
                };
                rep.outcome("still_verifies_or_panic", 1);
                rep.violate(Violation {
                    key: format!("c05:{}:{region}", what.split(':').take(2).collect::<Vec<_>>().join(":")),
                    summary: format!("ML-DSA-{} tuple {}: flipping bit {} of byte {} of the {field} ({region}): {what}", p.id, t.name, off % 8, off / 8),
                    replay: json!({"engine":"api","set":p.id,"ops":[{"op":"flip_verify","pk":hex(&t.pk),"mode":format!("{:?}",t.mode),"msg":hex(&t.msg),"ctx":hex(&t.ctx),"sig":hex(&t.sig),"field":field,"bit":off}]}),
                });
            }
        }
        if evaluated == 0 {
            rep.machinery(format!("ML-DSA-{}: no valid tuple verifies; the property's premise is never met", p.id));
        }
        rep.sample(json!({"set": p.id, "tuples": tuples.iter().map(|t| t.name.clone()).collect::<Vec<_>>(), "positions_per_tuple": "every bit of sig, pk, msg, ctx"}));
    }
}

// ------------------------------------------------------------------------------------------------ C06

fn strings_upto(sigma: &[u8], n: usize) -> Vec<Vec<u8>> {
    let mut out = vec![vec![]];
    let mut layer = vec![vec![]];
    for _ in 0..n {
        let mut next = Vec::new();
        for s in &layer {
            for &c in sigma {
                let mut t: Vec<u8> = s.clone();
                t.push(c);
                next.push(t);
            }
        }
        out.extend(next.iter().cloned());
        layer = next;
    }
    out
}

#[derive(Clone)]
struct Triple {
    mode: Mode,
    ctx: Vec<u8>,
    msg: Vec<u8>,
}
impl Triple {
    /// contexts longer than 255 bytes cannot be signed; such triples only appear as alternative readings
    fn signable(&self) -> bool { self.ctx.len() <= 255 }
}

fn cross_verify(api: &'static SetApi, triples: &[Triple], family: &str, rep: &mut Report, xi: &[u8; 32]) {
    let p = api.p;
    let Ok((pk, sk)) = (api.keygen_seed)(xi) else {
        rep.machinery("keygen failed".into());
        return;
    };
    let rnd = [0x33u8; 32];
    // sign every triple with the implementation
    let sigs: Vec<Option<Vec<u8>>> = triples
        .par_iter()
        .map(|t| {
            if !t.signable() {
                return None;
            }
            let mut rng = ScriptRng::ok(&rnd);
            match sk.sign(t.mode, &mut rng, &t.msg, &t.ctx) {
                Ok(Ok(s)) => Some(s),
                _ => None,
            }
        })
        .collect();
    let n = triples.len();
    // injectivity of M' over the enumerated set: signatures pairwise distinct (DESIGN 3.3)
    let mut seen: BTreeMap<Vec<u8>, usize> = BTreeMap::new();
    for (i, s) in sigs.iter().enumerate() {
        if !triples[i].signable() {
            continue;
        }
        let Some(s) = s else {
            rep.violate(Violation { key: "c06:sign-failed".into(), summary: format!("ML-DSA-{}: signing failed for triple {i} of family {family}", p.id), replay: json!({"engine":"api","set":p.id,"ops":[]}) });
            continue;
        };
        if let Some(&j) = seen.get(s) {
            let (a, b) = (&triples[j], &triples[i]);
            rep.violate(Violation {
                key: format!("c06:{family}:same-signature-for-different-triples"),
                summary: format!("ML-DSA-{}: ({:?}, |ctx|={}, |M|={}) and ({:?}, |ctx|={}, |M|={}) produce the same signature: their formatted messages collide (triples {j} and {i} of family {family}; full inputs in the replay file)", p.id, a.mode, a.ctx.len(), a.msg.len(), b.mode, b.ctx.len(), b.msg.len()),
                replay: json!({"engine":"api","set":p.id,"ops":[{"op":"keygen_seed","seed":hex(xi)},{"op":"sign_pair_distinct","a":{"mode":format!("{:?}",a.mode),"ctx":hex(&a.ctx),"msg":hex(&a.msg)},"b":{"mode":format!("{:?}",b.mode),"ctx":hex(&b.ctx),"msg":hex(&b.msg)},"rnd":hex(&rnd)}]}),
            });
        } else {
            seen.insert(s.clone(), i);
        }
    }
    // N x N cross verification
    let bad: Vec<(usize, usize, String)> = (0..n * n)
        .into_par_iter()
        .filter_map(|ij| {
            let (i, j) = (ij / n, ij % n);
            let s = sigs[i].as_ref()?;
            let t = &triples[j];
            match pk.verify(t.mode, &t.msg, s, &t.ctx) {
                Ok(v) if v == (i == j) => None,
                Ok(v) => Some((i, j, format!("{v}"))),
                Err(pn) => Some((i, j, format!("panic {}", pn.0))),
            }
        })
        .collect();
    rep.count(&format!("{family}:cross_verifications"), (n * n) as u64);
    rep.nontrivial_by_construction((n * n - n) as u64);
    rep.outcome("accept_identical_triple", n as u64 - bad.iter().filter(|b| b.0 == b.1).count() as u64);
    rep.outcome("reject_other_triple", (n * n - n) as u64 - bad.iter().filter(|b| b.0 != b.1).count() as u64);
    for (i, j, got) in bad {
        let (a, b) = (&triples[i], &triples[j]);
        rep.violate(Violation {
            key: format!("c06:{family}:{}", if i == j { "own-triple-rejected" } else { "accepted-under-other-triple" }),
            summary: format!("ML-DSA-{}: signature for ({:?}, |ctx|={} ctx={}.., |M|={} M={}..) verified under ({:?}, |ctx|={} ctx={}.., |M|={} M={}..) gives {got}", p.id, a.mode, a.ctx.len(), hex(&a.ctx[..a.ctx.len().min(8)]), a.msg.len(), hex(&a.msg[..a.msg.len().min(8)]), b.mode, b.ctx.len(), hex(&b.ctx[..b.ctx.len().min(8)]), b.msg.len(), hex(&b.msg[..b.msg.len().min(8)])),
            replay: json!({"engine":"api","set":p.id,"ops":[{"op":"keygen_seed","seed":hex(xi)},{"op":"sign_then_verify_other","sign":{"mode":format!("{:?}",a.mode),"ctx":hex(&a.ctx),"msg":hex(&a.msg)},"verify":{"mode":format!("{:?}",b.mode),"ctx":hex(&b.ctx),"msg":hex(&b.msg)},"rnd":hex(&rnd),"expect":i==j}]}),
        });
    }
}

pub fn c06(cx: &Ctx, rep: &mut Report) {
    rep.rule = "all triples (mode in 4, ctx, M) with ctx, M over a byte alphabet containing the domain bytes 0/1, small length bytes and the first OID byte, length <= n: signatures pairwise distinct (injectivity of the formatted message, observed through signature equality for fixed key and rnd) and N x N cross-verification (accept iff identical triple); plus the long-context family (254/255-byte contexts differing in first/last byte, re-splits across the ctx/M border) and the mimic family (pure-mode messages crafted as the other mode's formatted input, every PH against every other PH). Non-trivial = every ordered pair of different triples.".into();
    for api in APIS {
        let p = api.p;
        let xi = alpha::counter32(cx.seed, "seed", 7);
        let (sigma, n): (Vec<u8>, usize) = match (cx.tier, p.id) {
            (Tier::Quick, _) => (vec![0, 1], 2),
            (Tier::Thorough, 44) => (vec![0, 1, 6], 3),
            (Tier::Thorough, _) => (vec![0, 1, 6], 2),
        };
        let strs = strings_upto(&sigma, n);
        let mut triples = Vec::new();
        for mode in EXTERNAL_MODES {
            for c in &strs {
                for m in &strs {
                    triples.push(Triple { mode, ctx: c.clone(), msg: m.clone() });
                }
            }
        }
        cross_verify(api, &triples, "alphabet", rep, &xi);
        rep.sample(json!({"set": p.id, "family": "alphabet", "sigma": sigma, "max_len": n, "triples": triples.len()}));

        // long-context family: re-splits at the 254/255 border and single-byte differences at both ends
        let c255 = alpha::ctx(255);
        let mut c255_last = c255.clone();
        c255_last[254] ^= 0x01;
        let mut c255_first = c255.clone();
        c255_first[0] ^= 0x80;
        let c254 = c255[..254].to_vec();
        let mut c254_last = c254.clone();
        c254_last[253] ^= 0x01;
        let m0 = alpha::msg(5, 2);
        let m1 = [&c255[254..], &m0[..]].concat(); // ctx=c254, M = x || M0  vs ctx = c254||x, M = M0
        let mut long = Vec::new();
        for mode in EXTERNAL_MODES {
            for c in [&c255, &c255_last, &c255_first, &c254, &c254_last] {
                for m in [&m0, &m1] {
                    long.push(Triple { mode, ctx: c.clone(), msg: m.clone() });
                }
            }
        }
        // over-long contexts as alternative readings: (ctx = C_L, M = T) against the signed (ctx = C_L[..L mod 256], M = C_L[L mod 256..] || T)
        for l in [256usize, 257, 300, 512, 513, 1024] {
            let cl = alpha::ctx(l);
            let r = l % 256;
            for mode in EXTERNAL_MODES {
                long.push(Triple { mode, ctx: cl.clone(), msg: m0.clone() });
                long.push(Triple { mode, ctx: cl[..r].to_vec(), msg: [&cl[r..], &m0[..]].concat() });
            }
        }
        cross_verify(api, &long, "long-context", rep, &xi);

        // mimic family
        let mut mimic = Vec::new();
        let ctxs: Vec<Vec<u8>> = strings_upto(&[0, 1], cx.tier.pick(1, 2));
        for m0 in [alpha::msg(0, 0), alpha::msg(9, 2)] {
            for c in &ctxs {
                mimic.push(Triple { mode: Mode::Pure, ctx: c.clone(), msg: m0.clone() });
                for ph in [Mode::Sha256, Mode::Sha512, Mode::Shake128] {
                    mimic.push(Triple { mode: ph, ctx: c.clone(), msg: m0.clone() });
                    // pure-mode message equal to OID || PH(M0): same tail as the pre-hash M'
                    let tail = [&refmodel::oid(ph)[..], &refmodel::prehash(ph, &m0)[..]].concat();
                    mimic.push(Triple { mode: Mode::Pure, ctx: c.clone(), msg: tail.clone() });
                    // pure-mode message under the empty context that spells the whole pre-hash M'
                    let whole = [&[1u8, c.len() as u8][..], &c[..], &tail[..]].concat();
                    mimic.push(Triple { mode: Mode::Pure, ctx: vec![], msg: whole });
                    // pre-hash of a message that spells a pure-mode M'
                    let spelled = [&[0u8, c.len() as u8][..], &c[..], &m0[..]].concat();
                    mimic.push(Triple { mode: ph, ctx: vec![], msg: spelled });
                    // pure-mode triples whose CONTEXT spells the pre-hash OID (argument-order / field-confusion slips)
                    mimic.push(Triple { mode: Mode::Pure, ctx: refmodel::oid(ph).to_vec(), msg: m0.clone() });
                    mimic.push(Triple { mode: Mode::Pure, ctx: tail.clone(), msg: vec![] });
                    mimic.push(Triple { mode: Mode::Pure, ctx: [&c[..], &refmodel::oid(ph)[..]].concat(), msg: refmodel::prehash(ph, &m0) });
                    // other pre-hash functions given the digest of this one as message
                    for ph2 in [Mode::Sha256, Mode::Sha512, Mode::Shake128] {
                        if ph2 != ph {
                            mimic.push(Triple { mode: ph2, ctx: c.clone(), msg: refmodel::prehash(ph, &m0) });
                        }
                    }
                }
            }
        }
        // drop exact duplicates (identical triples would be "accept" on both)
        let mut uniq: Vec<Triple> = Vec::new();
        for t in mimic {
            if !uniq.iter().any(|u| u.mode == t.mode && u.ctx == t.ctx && u.msg == t.msg) {
                uniq.push(t);
            }
        }
        cross_verify(api, &uniq, "mimic", rep, &xi);
        rep.sample(json!({"set": p.id, "family": "mimic", "triples": uniq.len(), "example": {"mode":"Pure","ctx":"","msg":"01 || |ctx| || ctx || OID_SHA256 || SHA256(M0)"}}));
    }
    rep.require_class("alphabet:cross_verifications");
    rep.require_class("mimic:cross_verifications");
    rep.require_class("long-context:cross_verifications");
}

// ------------------------------------------------------------------------------------------------ C07

pub fn c07(cx: &Ctx, rep: &mut Report) {
    rep.rule = "EVERY context length 0..=1100 x sets x {try_sign_with_rng, try_hash_sign_with_rng x3, _internal_sign, verify, hash_verify x3, _internal_verify}: lengths <= 255 must sign, verify and (external modes) equal the reference; lengths > 255 must give Err / false, also for forged signatures made over the wrapped length byte (sigma1 = reference Sign_internal over the M' a truncating implementation would build; sigma2/sigma3 = honest signatures for the aliased short-context reading). Non-trivial = length > 255 or = 255, or a forged alias.".into();
    let maxlen = 1100usize;
    for api in APIS {
        let p = api.p;
        let xi = alpha::counter32(cx.seed, "seed", 8);
        let kg = refmodel::keygen_internal(p, &xi);
        let skc = SkCtx::new(p, &kg.sk);
        let Ok((pk, sk)) = (api.keygen_seed)(&xi) else {
            rep.machinery("keygen failed".into());
            continue;
        };
        let msg = alpha::msg(11, 2);
        let rnd = [0x44u8; 32];
        let full_modes: Vec<Mode> = ALL_MODES.to_vec();
        let alias_lens: Vec<usize> = match cx.tier {
            Tier::Quick => vec![256, 257, 300, 511, 512, 513, 768, 1024],
            Tier::Thorough => (256..=maxlen).collect(),
        };
        let viol: Vec<Violation> = (0..=maxlen)
            .into_par_iter()
            .flat_map_iter(|l| {
                let ctx = alpha::ctx(l);
                let mut v = Vec::new();
                for &mode in &full_modes {
                    let mut rng = ScriptRng::ok(&rnd);
                    let r = sk.sign(mode, &mut rng, &msg, &ctx);
                    let rp = |what: &str| json!({"engine":"api","set":p.id,"ops":[{"op":"keygen_seed","seed":hex(&xi)},{"op":"ctx_len_case","what":what,"mode":format!("{mode:?}"),"len":l,"msg":hex(&msg),"rnd":hex(&rnd)}]});
                    if l <= 255 {
                        match r {
                            Ok(Ok(s)) => {
                                let want = refmodel::sign(&skc, mode, &msg, &ctx, &rnd).unwrap();
                                if s != want {
                                    v.push(Violation { key: format!("c07:sign:{mode:?}:differs-from-reference"), summary: format!("ML-DSA-{} {mode:?} |ctx|={l}: signature differs from the reference", p.id), replay: rp("sign") });
                                }
                                if !matches!(pk.verify(mode, &msg, &s, &ctx), Ok(true)) {
                                    v.push(Violation { key: format!("c07:verify:{mode:?}:legal-ctx-rejected"), summary: format!("ML-DSA-{} {mode:?} |ctx|={l}: legal context not accepted by verification", p.id), replay: rp("verify") });
                                }
                            }
                            other => v.push(Violation { key: format!("c07:sign:{mode:?}:legal-ctx-refused"), summary: format!("ML-DSA-{} {mode:?} |ctx|={l}: signing with a legal context failed: {:?}", p.id, other.map(|r| r.err())), replay: rp("sign") }),
                        }
                    } else {
                        match r {
                            Ok(Err(_)) => {
                                if !rng.log.is_empty() && mode != Mode::Internal {
                                    // drawing randomness before refusing is allowed by the property; not flagged
                                }
                            }
                            Ok(Ok(_)) => v.push(Violation { key: format!("c07:sign:{mode:?}:overlong-ctx-signed"), summary: format!("ML-DSA-{} {mode:?}: signing succeeded with a {l}-byte context", p.id), replay: rp("sign") }),
                            Err(pn) => v.push(Violation { key: format!("c07:sign:{mode:?}:panic"), summary: format!("ML-DSA-{} {mode:?} |ctx|={l}: panic {}", p.id, pn.0), replay: rp("sign") }),
                        }
                        // sigma1: what a truncating implementation would have signed (for all lengths in pure mode, alias list otherwise)
                        if mode == Mode::Pure || alias_lens.contains(&l) {
                            let mp = forge::wrapped_m_prime(mode, &msg, &ctx);
                            let s1 = refmodel::sign_internal_ctx(&skc, &mp, &rnd, &refmodel::SignOpts::default()).0.unwrap();
                            match pk.verify(mode, &msg, &s1, &ctx) {
                                Ok(false) => {}
                                other => v.push(Violation { key: format!("c07:verify:{mode:?}:overlong-ctx-accepted"), summary: format!("ML-DSA-{} {mode:?}: verification with a {l}-byte context returned {other:?} for a signature made over the wrapped length byte", p.id), replay: rp("verify_wrapped") }),
                            }
                        }
                    }
                }
                v
            })
            .collect();
        rep.count(&format!("mldsa{}:lengths_0..=255", p.id), 256 * full_modes.len() as u64 * 2);
        rep.count(&format!("mldsa{}:lengths_256..={maxlen}", p.id), (maxlen - 255) as u64 * full_modes.len() as u64 * 2);
        rep.nontrivial_by_construction((maxlen - 254) as u64 * full_modes.len() as u64 * 2);
        for x in viol {
            rep.violate(x);
        }
        // lengths around every power of two above the sweep (a guard written as a mask or a narrower integer wraps there)
        let mut big: Vec<usize> = Vec::new();
        for k in 11..=cx.tier.pick(20u32, 24) {
            let b = 1usize << k;
            big.extend([b - 1, b, b + 1, b + 255, b + 256]);
        }
        big.extend([3 << 16, (3 << 16) + 7, 65791, 65792]);
        for &l in &big {
            let ctx = vec![0x5Au8; l];
            for &mode in &full_modes {
                let mut rng = ScriptRng::ok(&rnd);
                rep.count("big_lengths", 2);
                rep.nontrivial_case(fnv(&[&l.to_le_bytes()[..], &[mode as u8, p.id as u8]].concat()));
                let rp = json!({"engine":"api","set":p.id,"ops":[{"op":"keygen_seed","seed":hex(&xi)},{"op":"ctx_len_case","what":"big","mode":format!("{mode:?}"),"len":l,"msg":hex(&msg),"rnd":hex(&rnd)}]});
                match sk.sign(mode, &mut rng, &msg, &ctx) {
                    Ok(Err(_)) => {}
                    other => rep.violate(Violation { key: format!("c07:sign:{mode:?}:overlong-ctx-signed"), summary: format!("ML-DSA-{} {mode:?}: signing with a {l}-byte context returned {:?}", p.id, other.map(|r| r.map(|_| "a signature"))), replay: rp.clone() }),
                }
                let mp = forge::wrapped_m_prime(mode, &msg, &ctx);
                let s1 = refmodel::sign_internal_ctx(&skc, &mp, &rnd, &refmodel::SignOpts::default()).0.unwrap();
                match pk.verify(mode, &msg, &s1, &ctx) {
                    Ok(false) => {}
                    other => rep.violate(Violation { key: format!("c07:verify:{mode:?}:overlong-ctx-accepted"), summary: format!("ML-DSA-{} {mode:?}: verification with a {l}-byte context returned {other:?}", p.id), replay: rp }),
                }
            }
        }
        // sigma2 / sigma3 aliases through honest signatures
        for &l in &alias_lens {
            let ctx = alpha::ctx(l);
            for mode in EXTERNAL_MODES {
                if mode != Mode::Pure {
                    // in pre-hash mode the message is hashed, so a short-context alias must be forged over M' directly
                    continue;
                }
                let r = l % 256;
                // sigma2 (l = 256 alias): honest signature for (ctx = ctx[..r], M = ctx[r..] || M)
                let alias_ctx = ctx[..r].to_vec();
                let alias_msg = [&ctx[r..], &msg[..]].concat();
                let s = refmodel::sign(&skc, mode, &alias_msg, &alias_ctx, &rnd).unwrap();
                rep.count("alias:honest-reading-accepted", 1);
                rep.nontrivial_case(fnv(&[&s[..], &[l as u8]].concat()));
                if !matches!(pk.verify(mode, &alias_msg, &s, &alias_ctx), Ok(true)) {
                    rep.violate(Violation { key: "c07:alias:honest-reading-rejected".into(), summary: format!("ML-DSA-{}: honest signature under a {r}-byte context rejected", p.id), replay: json!({"engine":"api","set":p.id,"ops":[]}) });
                }
                rep.count("alias:long-reading-rejected", 1);
                match pk.verify(mode, &msg, &s, &ctx) {
                    Ok(false) => rep.outcome("alias_rejected", 1),
                    other => rep.violate(Violation {
                        key: "c07:alias:short-context-signature-replayed-with-long-context".into(),
                        summary: format!("ML-DSA-{}: a signature for a {r}-byte context verifies ({other:?}) when replayed with a {l}-byte context whose length byte wraps to {r}", p.id),
                        replay: json!({"engine":"api","set":p.id,"ops":[{"op":"keygen_seed","seed":hex(&xi)},{"op":"verify_with","pk":"generated","mode":"Pure","msg":hex(&msg),"ctx":hex(&ctx),"sig":hex(&s),"expect":false}]}),
                    }),
                }
            }
        }
        rep.sample(json!({"set": p.id, "context_lengths": format!("0..={maxlen}"), "entry_points": full_modes.iter().map(|m| format!("{m:?}")).collect::<Vec<_>>(), "alias_lengths": alias_lens.len()}));
    }
}

// ------------------------------------------------------------------------------------------------ C08

fn poly_from(vals: &[(usize, i32)], bg: i32) -> Poly {
    let mut w = [bg; 256];
    for &(i, v) in vals {
        w[i] = v;
    }
    w
}

/// (a) structured hint strings at the real (k, omega) against hooks, model and re-encoding
fn c08_hint_real<const K: usize>(p: &'static Params, strings: &[e3::HintStr], rep: &mut Report) -> (usize, usize) {
    let omega = p.omega;
    let res: Vec<(Option<Violation>, Vec<e3::AState>, bool)> = strings
        .par_iter()
        .map(|hs| {
            let tr = e3::trace_alg21(K, omega, &hs.y);
            let spec = refmodel::hint_bit_unpack(K, omega, &hs.y);
            assert_eq!(spec.is_some(), tr.verdict == e3::Verdict::Accept, "model and spec transcription disagree");
            let got = crate::subject::guard(|| hk::hint_bit_unpack::<K>(omega as i32, &hs.y));
            let replay = json!({"engine":"kernel","kernel":"hint_bit_unpack","set":p.id,"y":hex(&hs.y),"expect_accept":spec.is_some()});
            let v = match got {
                Err(pn) => Some(Violation { key: format!("c08:hint:panic:{}", pn.0.split('@').next_back().unwrap_or("").trim()), summary: format!("ML-DSA-{} hint_bit_unpack panicked on class {}: {}", p.id, hs.class, pn.0), replay }),
                Ok(Err(_)) if spec.is_none() => None,
                Ok(Err(e)) => Some(Violation { key: "c08:hint:wellformed-rejected".into(), summary: format!("ML-DSA-{} hint section of class {} is well-formed but rejected ({e})", p.id, hs.class), replay }),
                Ok(Ok(h)) => match &spec {
                    None => Some(Violation { key: format!("c08:hint:malformed-accepted:{:?}", tr.verdict), summary: format!("ML-DSA-{} malformed hint section accepted (class {}, FIPS 204 rejects at: {:?})", p.id, hs.class, tr.verdict), replay }),
                    Some(hs_spec) => {
                        if h.iter().zip(hs_spec.iter()).any(|(a, b)| a != b) {
                            Some(Violation { key: "c08:hint:decoded-differently".into(), summary: format!("ML-DSA-{} hint section decoded to a different hint vector (class {})", p.id, hs.class), replay })
                        } else {
                            // canonical: re-encoding reproduces the bytes
                            let mut y2 = vec![0u8; omega + K];
                            match crate::subject::guard(|| hk::hint_bit_pack::<false, K>(omega as i32, &h, &mut y2)) {
                                Ok(()) if y2 == hs.y => None,
                                Ok(()) => Some(Violation { key: "c08:hint:reencode-differs".into(), summary: format!("ML-DSA-{} accepted hint section does not re-encode to itself (class {})", p.id, hs.class), replay }),
                                Err(pn) => Some(Violation { key: "c08:hint:pack-panic".into(), summary: format!("ML-DSA-{} hint_bit_pack panicked: {}", p.id, pn.0), replay }),
                            }
                        }
                    }
                },
            };
            (v, tr.states, spec.is_some())
        })
        .collect();
    let traces: Vec<Vec<e3::AState>> = res.iter().map(|r| r.1.clone()).collect();
    let states = e3::distinct_states(&traces);
    let transitions: usize = traces.iter().map(|t| t.len()).sum();
    for (hs, (v, _, acc)) in strings.iter().zip(res) {
        rep.count(&format!("hint:{}", hs.class.split(':').next_back().unwrap_or("")), 1);
        rep.nontrivial_case(fnv(&[&hs.y[..], &[K as u8]].concat()));
        rep.outcome(if acc { "hint_accept" } else { "hint_reject" }, 1);
        if let Some(v) = v {
            rep.violate(v);
        }
    }
    (states, transitions)
}

/// (b) all byte strings at reduced (K, omega)
fn c08_hint_reduced<const K: usize>(omega: usize, rep: &mut Report) {
    let n = omega + K;
    let total: u64 = 1u64 << (8 * n);
    let chunk: u64 = 1 << 16;
    let res: Vec<(u64, u64, Option<(Vec<u8>, String)>)> = (0..total / chunk)
        .into_par_iter()
        .map(|c| {
            let mut acc = 0u64;
            let mut rej = 0u64;
            let mut bad = None;
            let mut y = vec![0u8; n];
            for x in c * chunk..(c + 1) * chunk {
                for (i, b) in y.iter_mut().enumerate() {
                    *b = (x >> (8 * i)) as u8;
                }
                let spec = refmodel::hint_bit_unpack(K, omega, &y);
                let got = match crate::subject::guard(|| hk::hint_bit_unpack::<K>(omega as i32, &y)) {
                    Ok(g) => g,
                    Err(pn) => {
                        if bad.is_none() {
                            bad = Some((y.clone(), format!("panic: {}", pn.0)));
                        }
                        continue;
                    }
                };
                let ok = match (&spec, &got) {
                    (None, Err(_)) => {
                        rej += 1;
                        true
                    }
                    (Some(a), Ok(b)) => {
                        acc += 1;
                        let same = a.iter().zip(b.iter()).all(|(x, y)| x == y);
                        let mut y2 = vec![0u8; n];
                        let packed = crate::subject::guard(|| hk::hint_bit_pack::<false, K>(omega as i32, b, &mut y2)).is_ok();
                        packed && same && y2 == y
                    }
                    _ => false,
                };
                if !ok && bad.is_none() {
                    bad = Some((y.clone(), format!("spec accepts: {}, implementation accepts: {}", spec.is_some(), got.is_ok())));
                }
            }
            (acc, rej, bad)
        })
        .collect();
    let acc: u64 = res.iter().map(|r| r.0).sum();
    let rej: u64 = res.iter().map(|r| r.1).sum();
    rep.count(&format!("hint_reduced:k={K},omega={omega}:all_byte_strings"), total);
    rep.nontrivial_by_construction(total);
    rep.outcome("hint_accept", acc);
    rep.outcome("hint_reject", rej);
    for (_, _, bad) in res {
        if let Some((y, what)) = bad {
            rep.violate(Violation {
                key: format!("c08:hint-reduced:k={K},omega={omega}"),
                summary: format!("HintBitUnpack at reduced parameters k={K}, omega={omega} disagrees with Algorithm 21 on y={} ({what})", hex(&y)),
                replay: json!({"engine":"kernel","kernel":"hint_bit_unpack_reduced","k":K,"omega":omega,"y":hex(&y)}),
            });
        }
    }
}

struct PackSpec {
    name: &'static str,
    a: i32,
    b: i32,
    /// library function family: true = bit_pack/bit_unpack(a,b); false = simple_bit_pack (a = 0)
    unpack_used: bool,
}

fn pack_case(ps: &PackSpec, w: &Poly) -> Option<Violation> {
    let bits = refmodel::bitlen(i64::from(ps.a + ps.b));
    let want = if ps.a == 0 { refmodel::simple_bit_pack(w, i64::from(ps.b)) } else { refmodel::bit_pack(w, i64::from(ps.a), i64::from(ps.b)) };
    let mut out = vec![0u8; 32 * bits];
    let replay = json!({"engine":"kernel","kernel":"bit_pack","a":ps.a,"b":ps.b,"w":w.to_vec()});
    match crate::subject::guard(|| {
        if ps.a == 0 {
            hk::simple_bit_pack(w, ps.b, &mut out)
        } else {
            hk::bit_pack(w, ps.a, ps.b, &mut out)
        }
    }) {
        Err(pn) => return Some(Violation { key: format!("c08:pack:{}:panic", ps.name), summary: format!("bit_pack({}) panicked on an in-range vector: {}", ps.name, pn.0), replay }),
        Ok(()) => {
            if out != want {
                return Some(Violation { key: format!("c08:pack:{}:differs", ps.name), summary: format!("BitPack({},{}) differs from Algorithm 17 at byte {:?}", ps.a, ps.b, out.iter().zip(&want).position(|(x, y)| x != y)), replay });
            }
        }
    }
    if ps.unpack_used {
        let got = crate::subject::guard(|| if ps.a == 0 { hk::simple_bit_unpack(&out, ps.b) } else { hk::bit_unpack(&out, ps.a, ps.b) });
        match got {
            Ok(Ok(w2)) if &w2 == w => None,
            other => Some(Violation { key: format!("c08:unpack:{}:pack-unpack-not-identity", ps.name), summary: format!("BitUnpack(BitPack(w)) != w for ({},{}) : {:?}", ps.a, ps.b, other.map(|r| r.map(|_| "different vector"))), replay }),
        }
    } else {
        None
    }
}

fn unpack_case(ps: &PackSpec, v: &[u8]) -> (bool, Option<Violation>) {
    let w = if ps.a == 0 { refmodel::simple_bit_unpack(v, i64::from(ps.b)) } else { refmodel::bit_unpack(v, i64::from(ps.a), i64::from(ps.b)) };
    let in_range = w.iter().all(|&c| c >= -ps.a && c <= ps.b);
    let replay = json!({"engine":"kernel","kernel":"bit_unpack","a":ps.a,"b":ps.b,"v":hex(v)});
    let got = crate::subject::guard(|| if ps.a == 0 { hk::simple_bit_unpack(v, ps.b) } else { hk::bit_unpack(v, ps.a, ps.b) });
    let viol = match got {
        Err(pn) => Some(Violation { key: format!("c08:unpack:{}:panic", ps.name), summary: format!("bit_unpack({}) panicked: {}", ps.name, pn.0), replay }),
        Ok(Err(_)) if !in_range => None,
        Ok(Err(e)) => Some(Violation { key: format!("c08:unpack:{}:in-range-rejected", ps.name), summary: format!("BitUnpack({},{}) rejected an in-range encoding: {e}", ps.a, ps.b), replay }),
        Ok(Ok(_)) if !in_range => Some(Violation { key: format!("c08:unpack:{}:out-of-range-accepted", ps.name), summary: format!("BitUnpack({},{}) accepted an encoding of a coefficient outside [-{}, {}]: two byte strings can then be read as keys that re-serialise differently", ps.a, ps.b, ps.a, ps.b), replay }),
        Ok(Ok(w2)) => {
            if w2 != w {
                Some(Violation { key: format!("c08:unpack:{}:differs", ps.name), summary: format!("BitUnpack({},{}) differs from Algorithm 19", ps.a, ps.b), replay })
            } else {
                // pack o unpack = id on accepted strings
                let mut out = vec![0u8; v.len()];
                match crate::subject::guard(|| if ps.a == 0 { hk::simple_bit_pack(&w2, ps.b, &mut out) } else { hk::bit_pack(&w2, ps.a, ps.b, &mut out) }) {
                    Ok(()) if out == v => None,
                    _ => Some(Violation { key: format!("c08:unpack:{}:unpack-pack-not-identity", ps.name), summary: format!("BitPack(BitUnpack(v)) != v for ({},{})", ps.a, ps.b), replay }),
                }
            }
        }
    };
    (in_range, viol)
}

fn c08_bitpack(cx: &Ctx, rep: &mut Report) {
    let specs = [
        PackSpec { name: "t1(0,1023)", a: 0, b: 1023, unpack_used: true },
        PackSpec { name: "w1(0,15)", a: 0, b: 15, unpack_used: false },
        PackSpec { name: "w1(0,43)", a: 0, b: 43, unpack_used: false },
        PackSpec { name: "eta(2,2)", a: 2, b: 2, unpack_used: true },
        PackSpec { name: "eta(4,4)", a: 4, b: 4, unpack_used: true },
        PackSpec { name: "t0(4095,4096)", a: 4095, b: 4096, unpack_used: true },
        PackSpec { name: "z(2^17-1,2^17)", a: (1 << 17) - 1, b: 1 << 17, unpack_used: true },
        PackSpec { name: "z(2^19-1,2^19)", a: (1 << 19) - 1, b: 1 << 19, unpack_used: true },
    ];
    for ps in &specs {
        let bits = refmodel::bitlen(i64::from(ps.a + ps.b));
        let span = ps.a + ps.b + 1; // number of in-range values
        // ---- pack side: one-hot (position x value alphabet) on three backgrounds, adjacent pairs over the alphabet
        let mut alpha_vals: Vec<i32> = vec![-ps.a, -ps.a + 1, -1, 0, 1, ps.b - 1, ps.b];
        let mut pw = 1;
        while pw <= ps.b {
            alpha_vals.push(pw);
            if pw <= ps.a {
                alpha_vals.push(-pw);
            }
            pw *= 2;
        }
        alpha_vals.retain(|&v| v >= -ps.a && v <= ps.b);
        alpha_vals.sort_unstable();
        alpha_vals.dedup();
        let full_vals: Vec<i32> = if span <= 8192 { (-ps.a..=ps.b).collect() } else { alpha_vals.clone() };
        let mut polys: Vec<Poly> = Vec::new();
        for bg in [0, -ps.a, ps.b] {
            for pos in 0..256 {
                let vals = if pos < 9 || pos > 246 || cx.tier == Tier::Thorough { &full_vals } else { &alpha_vals };
                for &v in vals {
                    polys.push(poly_from(&[(pos, v)], bg));
                }
            }
        }
        for pos in 0..255 {
            for &v1 in &alpha_vals {
                for &v2 in &alpha_vals {
                    polys.push(poly_from(&[(pos, v1), (pos + 1, v2)], 0));
                }
            }
        }
        // dense: marker pattern (each index carries a distinct in-range value)
        polys.push(core::array::from_fn(|i| -ps.a + ((i as i32 * 7 + 3) % span)));
        polys.push(core::array::from_fn(|i| ps.b - ((i as i32 * 13 + 1) % span)));
        let viol: Vec<Violation> = polys.par_iter().filter_map(|w| pack_case(ps, w)).collect();
        rep.count(&format!("pack:{}", ps.name), polys.len() as u64);
        rep.nontrivial_by_construction(polys.len() as u64);
        for v in viol {
            rep.violate(v);
        }
        // ---- unpack side: complete byte windows for narrow fields, field-level one-hot for wide fields
        if ps.unpack_used {
            let nbytes = 32 * bits;
            let mut total = 0u64;
            let mut accepted = 0u64;
            let mut viols: Vec<Violation> = Vec::new();
            if bits <= 4 {
                // one period = lcm(bits,8) bits; all byte windows of one period at each chosen offset
                let period_bytes = if bits == 3 { 3 } else { 1 };
                let nwin: u64 = 1 << (8 * period_bytes);
                let offsets: Vec<usize> = match cx.tier {
                    Tier::Quick => if bits == 3 { vec![nbytes - period_bytes] } else { vec![0, nbytes - period_bytes] },
                    Tier::Thorough => (0..nbytes / period_bytes).step_by(if bits == 3 { 4 } else { 1 }).map(|o| o * period_bytes).collect(),
                };
                // background: valid encoding of the all-zero polynomial
                let bgv = refmodel::bit_pack(&POLY0, i64::from(ps.a), i64::from(ps.b));
                for &off in &offsets {
                    let (acc, vs): (u64, Vec<Violation>) = (0..nwin)
                        .into_par_iter()
                        .fold(
                            || (0u64, Vec::new()),
                            |mut st, x| {
                                let mut v = bgv.clone();
                                for i in 0..period_bytes {
                                    v[off + i] = (x >> (8 * i)) as u8;
                                }
                                let (ok, viol) = unpack_case(ps, &v);
                                st.0 += u64::from(ok);
                                if let Some(vv) = viol {
                                    if st.1.len() < 4 {
                                        st.1.push(vv);
                                    }
                                }
                                st
                            },
                        )
                        .reduce(|| (0u64, Vec::new()), |mut a, mut b| {
                            a.0 += b.0;
                            a.1.append(&mut b.1);
                            a
                        });
                    total += nwin;
                    accepted += acc;
                    viols.extend(vs);
                }
            } else {
                // every field position x field-value alphabet (all values for <= 13 bits at the edge positions)
                let maxf: u32 = (1u32 << bits) - 1;
                let mut fvals: Vec<u32> = vec![0, 1, 2, maxf - 1, maxf, maxf / 2, maxf / 2 + 1];
                let mut pw = 1u32;
                while pw <= maxf {
                    fvals.push(pw);
                    fvals.push(pw - 1);
                    pw <<= 1;
                }
                fvals.sort_unstable();
                fvals.dedup();
                let bgv = refmodel::bit_pack(&POLY0, i64::from(ps.a), i64::from(ps.b));
                let mut cases: Vec<(usize, u32, Option<u32>)> = Vec::new();
                for pos in 0..256 {
                    let vals: Vec<u32> = if bits <= 13 && (pos < 9 || pos > 246 || cx.tier == Tier::Thorough) { (0..=maxf).collect() } else { fvals.clone() };
                    for v in vals {
                        cases.push((pos, v, None));
                    }
                    if pos < 255 {
                        for &v1 in &fvals {
                            for &v2 in fvals.iter().step_by(3) {
                                cases.push((pos, v1, Some(v2)));
                            }
                        }
                    }
                }
                let r: Vec<(bool, Option<Violation>)> = cases
                    .par_iter()
                    .map(|&(pos, v1, v2)| {
                        let mut v = bgv.clone();
                        crate::checks_a::set_field(&mut v, pos * bits, bits, v1);
                        if let Some(v2) = v2 {
                            crate::checks_a::set_field(&mut v, (pos + 1) * bits, bits, v2);
                        }
                        unpack_case(ps, &v)
                    })
                    .collect();
                total += cases.len() as u64;
                accepted += r.iter().filter(|x| x.0).count() as u64;
                viols.extend(r.into_iter().filter_map(|x| x.1));
            }
            rep.count(&format!("unpack:{}", ps.name), total);
            rep.nontrivial_by_construction(total);
            rep.outcome("unpack_in_range", accepted);
            rep.outcome("unpack_out_of_range", total - accepted);
            for v in viols {
                rep.violate(v);
            }
        }
    }
}

/// (d) sigDecode/sigEncode and pk/sk codec layout with marker values
fn c08_codecs<const K: usize, const L: usize, const LD4: usize, const SIG_LEN: usize, const PK_LEN: usize, const SK_LEN: usize>(p: &'static Params, cx: &Ctx, rep: &mut Report) {
    let g1 = p.gamma1 as i32;
    // signatures assembled from hint strings x z patterns x c_tilde patterns
    let strings: Vec<e3::HintStr> = e3::structured_strings(K, p.omega, 1).into_iter().chain(e3::heavy_strings(K, p.omega)).collect();
    let zpats: Vec<Vec<Poly>> = vec![
        vec![POLY0; L],
        (0..L).map(|j| core::array::from_fn(|i| ((j * 256 + i) as i32 * 97) % (2 * g1) - (g1 - 1))).collect(), // marker: distinct values per index
        vec![[g1; 256]; L],
        vec![[-(g1 - 1); 256]; L],
    ];
    let cpats: Vec<Vec<u8>> = vec![vec![0u8; LD4], vec![0xFF; LD4], (0..LD4).map(|i| i as u8).collect()];
    let mut cases: Vec<Vec<u8>> = Vec::new();
    for (si, hs) in strings.iter().enumerate() {
        let zi = si % zpats.len();
        let ci = si % cpats.len();
        let mut s = cpats[ci].clone();
        for j in 0..L {
            s.extend(refmodel::bit_pack(&zpats[zi][j], i64::from(g1 - 1), i64::from(g1)));
        }
        s.extend_from_slice(&hs.y);
        cases.push(s);
    }
    let viol: Vec<Violation> = cases
        .par_iter()
        .filter_map(|s| {
            let arr: [u8; SIG_LEN] = s.as_slice().try_into().unwrap();
            let (c_ref, z_ref, h_ref) = refmodel::sig_decode(p, s);
            let replay = json!({"engine":"kernel","kernel":"sig_decode","set":p.id,"sig":hex(s)});
            match crate::subject::guard(|| hk::sig_decode::<K, L, LD4, SIG_LEN>(g1, p.omega as i32, &arr)) {
                Err(pn) => Some(Violation { key: "c08:sig_decode:panic".into(), summary: format!("ML-DSA-{} sig_decode panicked: {}", p.id, pn.0), replay }),
                Ok(Err(_)) | Ok(Ok((_, _, None))) => {
                    if h_ref.is_none() {
                        None
                    } else {
                        Some(Violation { key: "c08:sig_decode:wellformed-rejected".into(), summary: format!("ML-DSA-{} sig_decode rejected a well-formed signature encoding", p.id), replay })
                    }
                }
                Ok(Ok((c, z, Some(h)))) => {
                    let Some(h_ref) = h_ref else {
                        return Some(Violation { key: "c08:sig_decode:malformed-accepted".into(), summary: format!("ML-DSA-{} sig_decode accepted a signature whose hint section FIPS 204 rejects", p.id), replay });
                    };
                    if c.to_vec() != c_ref || z.iter().zip(&z_ref).any(|(a, b)| a != b) || h.iter().zip(&h_ref).any(|(a, b)| a != b) {
                        return Some(Violation { key: "c08:sig_decode:differs".into(), summary: format!("ML-DSA-{} sig_decode output differs from Algorithm 27 (field offset error?)", p.id), replay });
                    }
                    match crate::subject::guard(|| hk::sig_encode::<false, K, L, LD4, SIG_LEN>(g1, p.omega as i32, &c, &z, &h)) {
                        Ok(s2) if s2.to_vec() == *s => None,
                        Ok(_) => Some(Violation { key: "c08:sig:reencode-differs".into(), summary: format!("ML-DSA-{} sigEncode(sigDecode(sigma)) != sigma for an accepted signature", p.id), replay }),
                        Err(pn) => Some(Violation { key: "c08:sig_encode:panic".into(), summary: format!("ML-DSA-{} sig_encode panicked on decoded data: {}", p.id, pn.0), replay }),
                    }
                }
            }
        })
        .collect();
    rep.count(&format!("sig_codec:mldsa{}", p.id), cases.len() as u64);
    rep.nontrivial_by_construction(cases.len() as u64);
    for v in viol {
        rep.violate(v);
    }
    // pk / sk codecs with marker values: every coefficient index carries a distinct value
    let t1: Vec<Poly> = (0..K).map(|k| core::array::from_fn(|i| ((k * 256 + i) as i32 * 37 + 5) % 1024)).collect();
    let rho: [u8; 32] = core::array::from_fn(|i| i as u8 + 1);
    let pk_ref = refmodel::pk_encode(p, &rho, &t1);
    let t1a: [Poly; K] = core::array::from_fn(|k| t1[k]);
    rep.count("pk_codec", 2);
    match crate::subject::guard(|| hk::pk_encode::<K, PK_LEN>(&rho, &t1a)) {
        Ok(b) if b.to_vec() == pk_ref => {}
        other => rep.violate(Violation { key: "c08:pk_encode:differs".into(), summary: format!("ML-DSA-{} pk_encode differs from Algorithm 22: {:?}", p.id, other.err()), replay: json!({"engine":"kernel","kernel":"pk_encode","set":p.id}) }),
    }
    let pk_arr: [u8; PK_LEN] = pk_ref.as_slice().try_into().unwrap();
    match crate::subject::guard(|| hk::pk_decode::<K, PK_LEN>(&pk_arr)) {
        Ok(Ok((r, t))) if r == rho && t == t1a => {}
        other => rep.violate(Violation { key: "c08:pk_decode:differs".into(), summary: format!("ML-DSA-{} pk_decode differs from Algorithm 23: ok={}", p.id, other.is_ok()), replay: json!({"engine":"kernel","kernel":"pk_decode","set":p.id}) }),
    }
    let eta = p.eta as i32;
    let s1: Vec<Poly> = (0..L).map(|l| core::array::from_fn(|i| ((l * 256 + i) as i32 * 3 + 1) % (2 * eta + 1) - eta)).collect();
    let s2: Vec<Poly> = (0..K).map(|k| core::array::from_fn(|i| ((k * 256 + i) as i32 * 5 + 2) % (2 * eta + 1) - eta)).collect();
    let t0: Vec<Poly> = (0..K).map(|k| core::array::from_fn(|i| ((k * 256 + i) as i32 * 41 + 7) % 8192 - 4095)).collect();
    let key: [u8; 32] = core::array::from_fn(|i| 0x80 + i as u8);
    let tr: [u8; 64] = core::array::from_fn(|i| 0x40 + i as u8);
    let sk_ref = refmodel::sk_encode(p, &rho, &key, &tr, &s1, &s2, &t0);
    let (s1a, s2a, t0a): ([Poly; L], [Poly; K], [Poly; K]) = (core::array::from_fn(|i| s1[i]), core::array::from_fn(|i| s2[i]), core::array::from_fn(|i| t0[i]));
    rep.count("sk_codec", 2);
    match crate::subject::guard(|| hk::sk_encode::<K, L, SK_LEN>(eta, &rho, &key, &tr, &s1a, &s2a, &t0a)) {
        Ok(b) if b.to_vec() == sk_ref => {}
        other => rep.violate(Violation { key: "c08:sk_encode:differs".into(), summary: format!("ML-DSA-{} sk_encode differs from Algorithm 24: {:?}", p.id, other.err()), replay: json!({"engine":"kernel","kernel":"sk_encode","set":p.id}) }),
    }
    let sk_arr: [u8; SK_LEN] = sk_ref.as_slice().try_into().unwrap();
    match crate::subject::guard(|| hk::sk_decode::<K, L, SK_LEN>(eta, &sk_arr)) {
        Ok(Ok((r, k2, tr2, a, b, c))) if r == rho && k2 == key && tr2 == tr && a == s1a && b == s2a && c == t0a => {}
        other => rep.violate(Violation { key: "c08:sk_decode:differs".into(), summary: format!("ML-DSA-{} sk_decode differs from Algorithm 25: ok={}", p.id, other.is_ok()), replay: json!({"engine":"kernel","kernel":"sk_decode","set":p.id}) }),
    }
    // w1Encode layout
    let m = ((refmodel::Q - 1) / (2 * p.gamma2)) as i32;
    let w1: Vec<Poly> = (0..K).map(|k| core::array::from_fn(|i| ((k * 256 + i) as i32 * 7 + 1) % m)).collect();
    let w1a: [Poly; K] = core::array::from_fn(|k| w1[k]);
    let want = refmodel::w1_encode(p, &w1);
    let mut out = vec![0u8; want.len()];
    rep.count("w1_codec", 1);
    match crate::subject::guard(|| hk::w1_encode::<K>(p.gamma2 as i32, &w1a, &mut out)) {
        Ok(()) if out == want => {}
        other => rep.violate(Violation { key: "c08:w1_encode:differs".into(), summary: format!("ML-DSA-{} w1_encode differs from Algorithm 28: {:?}", p.id, other.err()), replay: json!({"engine":"kernel","kernel":"w1_encode","set":p.id}) }),
    }
    rep.nontrivial_by_construction(5);
    let _ = cx;
}

pub fn c08(cx: &Ctx, rep: &mut Report) {
    rep.rule = "(a) E3: Algorithm 21 as a transition system; every path with <= N hints (all compositions over k polynomials x index bytes from {0,1,128,255} x padding choice x every count-byte deviation) and the weight omega-1/omega families are concretised at the real (k, omega) and replayed on hint_bit_unpack: verdict and hint vector must equal the model's, accepted strings must re-encode to themselves; (b) ALL byte strings at reduced (k, omega); (c) BitPack/BitUnpack for every (a,b) the library uses: complete byte windows for 3/4-bit fields, field one-hot x all values (<= 13 bit) and alphabet pairs for wider fields, against Algorithms 16-19, both compositions = identity, out-of-range => Err; (d) sigDecode/sigEncode, pk/sk/w1 codecs with marker values. Every case is distinct; all are non-trivial (structure-aware boundary / malformed strings).".into();
    let max_hints = cx.tier.pick(2, 3);
    let mut states = 0;
    let mut transitions = 0;
    for api in APIS {
        let p = api.p;
        let strings: Vec<e3::HintStr> = e3::structured_strings(p.k, p.omega, max_hints).into_iter().chain(e3::heavy_strings(p.k, p.omega)).collect();
        let (s, t) = match p.id {
            44 => c08_hint_real::<4>(p, &strings, rep),
            65 => c08_hint_real::<6>(p, &strings, rep),
            _ => c08_hint_real::<8>(p, &strings, rep),
        };
        states += s;
        transitions += t;
        if let Some(hs) = strings.iter().find(|h| h.class.contains("repeated")) {
            rep.sample(json!({"set": p.id, "class": hs.class, "y": hex(&hs.y), "model_verdict": format!("{:?}", e3::trace_alg21(p.k, p.omega, &hs.y).verdict)}));
        }
        match p.id {
            44 => c08_codecs::<4, 4, 32, 2420, 1312, 2560>(p, cx, rep),
            65 => c08_codecs::<6, 5, 48, 3309, 1952, 4032>(p, cx, rep),
            _ => c08_codecs::<8, 7, 64, 4627, 2592, 4896>(p, cx, rep),
        }
    }
    rep.extra.insert("states".into(), json!(states));
    rep.extra.insert("transitions".into(), json!(transitions));
    c08_hint_reduced::<1>(1, rep);
    c08_hint_reduced::<1>(2, rep);
    if cx.tier == Tier::Thorough {
        c08_hint_reduced::<2>(1, rep);
        c08_hint_reduced::<2>(2, rep);
        c08_hint_reduced::<1>(3, rep);
    }
    c08_bitpack(cx, rep);
    rep.extra.insert("traces_validated_against_impl".into(), json!(rep.evaluations));
    for need in ["hint_accept", "hint_reject", "unpack_out_of_range"] {
        if rep.outcomes.get(need).copied().unwrap_or(0) == 0 && rep.violations_total == 0 {
            rep.machinery(format!("no '{need}' outcome observed"));
        }
    }
}
