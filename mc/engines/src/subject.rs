//! Uniform, non-generic access to the three parameter sets of the implementation under test.
//! Every call into fips204 goes through `guard`, which turns an unwinding panic into `Err(Panic)`.

use crate::rng::ScriptRng;
use fips204::traits::{KeyGen, SerDes, Signer, Verifier};
use fips204::Ph;
use refmodel::{Mode, Params};
use std::cell::RefCell;
use std::panic::{catch_unwind, AssertUnwindSafe};

thread_local! {
    static LAST_PANIC: RefCell<String> = const { RefCell::new(String::new()) };
}

pub fn install_panic_hook() {
    std::panic::set_hook(Box::new(|info| {
        let loc = info.location().map(|l| format!("{}:{}:{}", l.file(), l.line(), l.column())).unwrap_or_default();
        let msg = if let Some(s) = info.payload().downcast_ref::<&str>() {
            (*s).to_string()
        } else if let Some(s) = info.payload().downcast_ref::<String>() {
            s.clone()
        } else {
            "<non-string panic>".to_string()
        };
        LAST_PANIC.with(|p| *p.borrow_mut() = format!("{msg} @ {loc}"));
    }));
}

#[derive(Debug, Clone, PartialEq, Eq)]
pub struct Panic(pub String);

/// Run `f`, catching an unwinding panic.
pub fn guard<T>(f: impl FnOnce() -> T) -> Result<T, Panic> {
    match catch_unwind(AssertUnwindSafe(f)) {
        Ok(v) => Ok(v),
        Err(_) => Err(Panic(LAST_PANIC.with(|p| p.borrow().clone()))),
    }
}

fn ph(mode: Mode) -> Ph {
    match mode {
        Mode::Sha256 => Ph::SHA256,
        Mode::Sha512 => Ph::SHA512,
        Mode::Shake128 => Ph::SHAKE128,
        _ => unreachable!(),
    }
}

pub trait PkOps: Send + Sync {
    fn verify(&self, mode: Mode, m: &[u8], sig: &[u8], ctx: &[u8]) -> Result<bool, Panic>;
    fn to_bytes(&self) -> Result<Vec<u8>, Panic>;
    /// raw in-memory bytes of the struct (no padding; asserted at start-up)
    fn raw(&self) -> Vec<u8>;
    fn clone_box(&self) -> Result<Box<dyn PkOps>, Panic>;
}
pub trait SkOps: Send + Sync {
    /// sign in `mode`; for `Mode::Internal` the rng is asked for the 32 bytes by the harness itself
    fn sign(&self, mode: Mode, rng: &mut ScriptRng, m: &[u8], ctx: &[u8]) -> Result<Result<Vec<u8>, &'static str>, Panic>;
    fn to_bytes(&self) -> Result<Vec<u8>, Panic>;
    fn raw(&self) -> Vec<u8>;
    fn derive_pk(&self) -> Result<Box<dyn PkOps>, Panic>;
    fn clone_box(&self) -> Result<Box<dyn SkOps>, Panic>;
}

pub type KeyPair = (Box<dyn PkOps>, Box<dyn SkOps>);

pub struct SetApi {
    pub p: &'static Params,
    pub keygen_seed: fn(&[u8; 32]) -> Result<KeyPair, Panic>,
    pub keygen_rng: fn(&mut ScriptRng) -> Result<Result<KeyPair, &'static str>, Panic>,
    pub pk_from_bytes: fn(&[u8]) -> Result<Result<Box<dyn PkOps>, &'static str>, Panic>,
    pub sk_from_bytes: fn(&[u8]) -> Result<Result<Box<dyn SkOps>, &'static str>, Panic>,
    pub dudect: fn(&mut ScriptRng, &[u8]) -> Result<Result<Vec<u8>, &'static str>, Panic>,
    /// rebuild a key object from its raw in-memory bytes (all fields are plain integers, any bit pattern is valid)
    /// C16: build a key of `kind` ("sk"/"pk") by `provenance`, drop it in place, inspect every byte of its storage.
    /// returns (size, bytes non-zero before drop, offsets of non-zero bytes after drop (first 8))
    pub zeroize_probe: fn(&str, &str, &[u8; 32]) -> Result<(usize, usize, Vec<usize>), String>,
    pub pk_from_raw: fn(&[u8]) -> Box<dyn PkOps>,
    pub sk_from_raw: fn(&[u8]) -> Box<dyn SkOps>,
    pub pk_struct_size: usize,
    pub sk_struct_size: usize,
}

fn raw_bytes<T>(t: &T) -> Vec<u8> {
    // The key structs consist solely of u8 arrays and align(8) wrappers of [i32; 256]; every field
    // size is a multiple of 8, so there is no padding (sizes asserted in `selfcheck`).
    let n = core::mem::size_of::<T>();
    let p = (t as *const T).cast::<u8>();
    unsafe { core::slice::from_raw_parts(p, n) }.to_vec()
}

/// Place the object in heap storage that outlives it, run its destructor in place, then read every byte.
fn drop_and_inspect<T>(obj: T) -> (usize, usize, Vec<usize>) {
    let n = core::mem::size_of::<T>();
    let mut slot: Box<core::mem::ManuallyDrop<T>> = Box::new(core::mem::ManuallyDrop::new(obj));
    let p = (&mut **slot as *mut T).cast::<u8>();
    let before = (0..n).filter(|&i| unsafe { core::ptr::read_volatile(p.add(i)) } != 0).count();
    unsafe { core::mem::ManuallyDrop::drop(&mut *slot) };
    let after: Vec<usize> = (0..n).filter(|&i| unsafe { core::ptr::read_volatile(p.add(i)) } != 0).take(8).collect();
    (n, before, after)
}

fn from_raw<T>(b: &[u8]) -> T {
    assert_eq!(b.len(), core::mem::size_of::<T>());
    let mut k = core::mem::MaybeUninit::<T>::uninit();
    unsafe {
        core::ptr::copy_nonoverlapping(b.as_ptr(), k.as_mut_ptr().cast::<u8>(), b.len());
        k.assume_init()
    }
}

macro_rules! set_impl {
    ($modname:ident, $ns:ident, $params:expr) => {
        pub mod $modname {
            use super::*;
            use fips204::$ns as ns;
            pub struct Pk(pub ns::PublicKey);
            pub struct Sk(pub ns::PrivateKey);

            impl PkOps for Pk {
                #[allow(deprecated)]
                fn verify(&self, mode: Mode, m: &[u8], sig: &[u8], ctx: &[u8]) -> Result<bool, Panic> {
                    let sig: [u8; ns::SIG_LEN] = sig.try_into().expect("harness supplies SIG_LEN bytes");
                    guard(|| match mode {
                        Mode::Pure => self.0.verify(m, &sig, ctx),
                        Mode::Internal => ns::_internal_verify(&self.0, m, &sig, ctx),
                        _ => self.0.hash_verify(m, &sig, ctx, &ph(mode)),
                    })
                }
                fn to_bytes(&self) -> Result<Vec<u8>, Panic> { guard(|| self.0.clone().into_bytes().to_vec()) }
                fn raw(&self) -> Vec<u8> { raw_bytes(&self.0) }
                fn clone_box(&self) -> Result<Box<dyn PkOps>, Panic> {
                    guard(|| Box::new(Pk(self.0.clone())) as Box<dyn PkOps>)
                }
            }
            impl SkOps for Sk {
                #[allow(deprecated)]
                fn sign(
                    &self, mode: Mode, rng: &mut ScriptRng, m: &[u8], ctx: &[u8],
                ) -> Result<Result<Vec<u8>, &'static str>, Panic> {
                    guard(|| match mode {
                        Mode::Pure => self.0.try_sign_with_rng(rng, m, ctx).map(|s| s.to_vec()),
                        Mode::Internal => {
                            let mut rnd = [0u8; 32];
                            match rand_core::RngCore::try_fill_bytes(rng, &mut rnd) {
                                Ok(()) => ns::_internal_sign(&self.0, m, ctx, rnd).map(|s| s.to_vec()),
                                Err(_) => Err("harness: rng failed before _internal_sign"),
                            }
                        }
                        _ => self.0.try_hash_sign_with_rng(rng, m, ctx, &ph(mode)).map(|s| s.to_vec()),
                    })
                }
                fn to_bytes(&self) -> Result<Vec<u8>, Panic> { guard(|| self.0.clone().into_bytes().to_vec()) }
                fn raw(&self) -> Vec<u8> { raw_bytes(&self.0) }
                fn derive_pk(&self) -> Result<Box<dyn PkOps>, Panic> {
                    guard(|| Box::new(Pk(self.0.get_public_key())) as Box<dyn PkOps>)
                }
                fn clone_box(&self) -> Result<Box<dyn SkOps>, Panic> {
                    guard(|| Box::new(Sk(self.0.clone())) as Box<dyn SkOps>)
                }
            }
            fn pair(pk: ns::PublicKey, sk: ns::PrivateKey) -> KeyPair { (Box::new(Pk(pk)), Box::new(Sk(sk))) }
            fn keygen_seed(xi: &[u8; 32]) -> Result<KeyPair, Panic> {
                guard(|| {
                    let (pk, sk) = ns::KG::keygen_from_seed(xi);
                    pair(pk, sk)
                })
            }
            fn keygen_rng(rng: &mut ScriptRng) -> Result<Result<KeyPair, &'static str>, Panic> {
                guard(|| ns::try_keygen_with_rng(rng).map(|(pk, sk)| pair(pk, sk)))
            }
            fn pk_from_bytes(b: &[u8]) -> Result<Result<Box<dyn PkOps>, &'static str>, Panic> {
                let arr: [u8; ns::PK_LEN] = b.try_into().expect("harness supplies PK_LEN bytes");
                guard(|| ns::PublicKey::try_from_bytes(arr).map(|k| Box::new(Pk(k)) as Box<dyn PkOps>))
            }
            fn sk_from_bytes(b: &[u8]) -> Result<Result<Box<dyn SkOps>, &'static str>, Panic> {
                let arr: [u8; ns::SK_LEN] = b.try_into().expect("harness supplies SK_LEN bytes");
                guard(|| ns::PrivateKey::try_from_bytes(arr).map(|k| Box::new(Sk(k)) as Box<dyn SkOps>))
            }
            #[allow(deprecated)]
            fn dudect(rng: &mut ScriptRng, m: &[u8]) -> Result<Result<Vec<u8>, &'static str>, Panic> {
                guard(|| ns::dudect_keygen_sign_with_rng(rng, m).map(|s| s.to_vec()))
            }
            fn pk_from_raw(b: &[u8]) -> Box<dyn PkOps> { Box::new(Pk(from_raw::<ns::PublicKey>(b))) }
            fn sk_from_raw(b: &[u8]) -> Box<dyn SkOps> { Box::new(Sk(from_raw::<ns::PrivateKey>(b))) }
            fn zeroize_probe(kind: &str, prov: &str, xi: &[u8; 32]) -> Result<(usize, usize, Vec<usize>), String> {
                let mk = || -> Result<(ns::PublicKey, ns::PrivateKey), String> {
                    match prov {
                        "keygen_from_seed" | "clone" | "get_public_key" => Ok(ns::KG::keygen_from_seed(xi)),
                        "try_keygen_with_rng" => ns::try_keygen_with_rng(&mut ScriptRng::ok(xi)).map_err(|e| e.to_string()),
                        "try_from_bytes" => {
                            let (pk, sk) = ns::KG::keygen_from_seed(xi);
                            let pk2 = ns::PublicKey::try_from_bytes(pk.into_bytes()).map_err(|e| e.to_string())?;
                            let sk2 = ns::PrivateKey::try_from_bytes(sk.into_bytes()).map_err(|e| e.to_string())?;
                            Ok((pk2, sk2))
                        }
                        "try_from_bytes:rho=0" | "try_from_bytes:K=0,tr=0" | "try_from_bytes:rho=K=tr=0" => {
                            let (pk, sk) = ns::KG::keygen_from_seed(xi);
                            let (mut pkb, mut skb) = (pk.into_bytes(), sk.into_bytes());
                            if prov.contains("rho=") {
                                pkb[..32].fill(0);
                                skb[..32].fill(0);
                            }
                            if prov.contains("K=") {
                                skb[32..128].fill(0);
                            }
                            let pk2 = ns::PublicKey::try_from_bytes(pkb).map_err(|e| e.to_string())?;
                            let sk2 = ns::PrivateKey::try_from_bytes(skb).map_err(|e| e.to_string())?;
                            Ok((pk2, sk2))
                        }
                        _ => Err(format!("unknown provenance {prov}")),
                    }
                };
                guard(|| -> Result<(usize, usize, Vec<usize>), String> {
                    let (pk, sk) = mk()?;
                    if kind == "sk" {
                        let obj = if prov == "clone" { sk.clone() } else { sk };
                        Ok(drop_and_inspect(obj))
                    } else {
                        let obj = match prov {
                            "clone" => pk.clone(),
                            "get_public_key" => sk.get_public_key(),
                            _ => pk,
                        };
                        Ok(drop_and_inspect(obj))
                    }
                })
                .map_err(|p| format!("panic: {}", p.0))?
            }
            pub static API: SetApi = SetApi {
                p: $params,
                keygen_seed,
                keygen_rng,
                pk_from_bytes,
                sk_from_bytes,
                dudect,
                zeroize_probe,
                pk_from_raw,
                sk_from_raw,
                pk_struct_size: core::mem::size_of::<ns::PublicKey>(),
                sk_struct_size: core::mem::size_of::<ns::PrivateKey>(),
            };
        }
    };
}

set_impl!(s44, ml_dsa_44, &refmodel::P44);
set_impl!(s65, ml_dsa_65, &refmodel::P65);
set_impl!(s87, ml_dsa_87, &refmodel::P87);

pub static APIS: [&SetApi; 3] = [&s44::API, &s65::API, &s87::API];

pub fn api(id: u32) -> &'static SetApi {
    match id {
        44 => &s44::API,
        65 => &s65::API,
        87 => &s87::API,
        _ => panic!("unknown set"),
    }
}

/// Start-up self check: struct sizes imply no padding (DESIGN 3.4).
pub fn selfcheck() -> Result<(), String> {
    for a in APIS {
        let p = a.p;
        let want_sk = 128 + (p.l + 2 * p.k) * 1024;
        let want_pk = 96 + p.k * 1024;
        if a.sk_struct_size != want_sk || a.pk_struct_size != want_pk {
            return Err(format!(
                "struct layout changed for ML-DSA-{}: sk {} (want {}), pk {} (want {})",
                p.id, a.sk_struct_size, want_sk, a.pk_struct_size, want_pk
            ));
        }
    }
    Ok(())
}
