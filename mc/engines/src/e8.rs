//! E8: subject-adaptive search for inputs of the forward transform whose *integer* (unreduced) output is as large as
//! possible. Output slot 0 of Algorithm 41 is  w[0] + sum over the 8 layers of t_l,  t_l = "zeta_l * w[len_l]" as the
//! implementation computes it (a Montgomery product, whatever representative it keeps). With the support
//! {0, 128} u {len, len + 128 : len = 64, 32, .., 1} the multiplicand of layer l >= 1 is  z[len] + t_0'(z[len + 128])  and
//! depends on two inputs only, and the contributions of different layers do not interact, so the objective separates
//! and each layer is maximised by COMPLETE enumeration of its (u, v) candidates - evaluated by calling the subject's own
//! `ntt` (through the hook), not a model of it, so the search follows whatever arithmetic the tree under test has.
//! The assembled polynomials are then used at kernel level (ntt / to_mont congruence, C18) and through the public API
//! (public key t1, private key t0, response z; C13 / C02).

use crate::subject::{guard, Panic};
use std::sync::Mutex;
use fips204::verif_hooks as hk;
use rayon::prelude::*;
use refmodel::{Poly, POLY0};

#[derive(Clone, Debug)]
pub struct Growth {
    /// input class: "t1", "t0" or "z"
    pub class: String,
    pub sign: i64,
    /// coefficients in the units of the class (t1 in [0, 1023], not multiplied by 2^d)
    pub coeffs: Poly,
    /// multiplier applied before the transform (2^d for t1, else 1)
    pub scale: i32,
    /// slot-0 value the separable model predicts for the assembled polynomial, and the one the subject returned
    pub predicted: i64,
    pub actual: i64,
    pub evals: u64,
}

impl Growth {
    pub fn input(&self) -> Poly { core::array::from_fn(|i| self.coeffs[i] * self.scale) }
}

/// a panic inside the transform during the search, with the (class-unit) polynomial that caused it
#[derive(Clone, Debug)]
pub struct GrowthPanic {
    pub class: String,
    pub panic: Panic,
    pub coeffs: Poly,
    pub scale: i32,
}

static OFFENDER: Mutex<Option<Poly>> = Mutex::new(None);

/// slot 0 of the subject's transform; a panic is recorded together with its input and re-raised
fn slot0(w: Poly) -> i64 {
    match std::panic::catch_unwind(|| i64::from(hk::ntt(&[w])[0][0])) {
        Ok(v) => v,
        Err(e) => {
            let mut o = OFFENDER.lock().unwrap_or_else(|p| p.into_inner());
            if o.is_none() {
                *o = Some(w);
            }
            drop(o);
            std::panic::resume_unwind(e)
        }
    }
}

fn located(class: &str, scale: i32, panic: Panic) -> GrowthPanic {
    let w = OFFENDER.lock().unwrap_or_else(|p| p.into_inner()).take().unwrap_or(POLY0);
    GrowthPanic { class: class.to_string(), panic, coeffs: core::array::from_fn(|i| w[i] / scale), scale }
}

/// `lo..=hi` coefficient range (class units), `scale` multiplier, `u_stride` subsampling of the directly multiplied
/// coefficient (1 = complete), `v_count` how many candidates of the partner coefficient (index + 128) are combined with it.
pub fn forward_growth(class: &str, lo: i32, hi: i32, scale: i32, u_stride: usize, v_count: usize, signs: &[i64]) -> Result<Vec<Growth>, GrowthPanic> {
    let cands: Vec<i32> = (lo..=hi).collect();
    // layer-0 products of every candidate: t_0(v) = slot 0 of the transform of v * X^128
    let t0: Vec<i64> = guard(|| {
        cands
            .par_iter()
            .map(|&v| {
                let mut w = POLY0;
                w[128] = v * scale;
                slot0(w)
            })
            .collect()
    })
    .map_err(|e| located(class, scale, e))?;
    let mut evals = cands.len() as u64;
    // partner candidates: those whose layer-0 product is largest in magnitude, half of each sign, plus "absent"
    let mut order: Vec<usize> = (0..cands.len()).collect();
    order.sort_by_key(|&i| std::cmp::Reverse(t0[i]));
    let mut vs: Vec<i32> = vec![0];
    for i in 0..(v_count / 2).min(order.len()) {
        vs.push(cands[order[i]]);
        vs.push(cands[order[order.len() - 1 - i]]);
    }
    vs.sort_unstable();
    vs.dedup();
    let us: Vec<i32> = cands.iter().copied().step_by(u_stride.max(1)).chain([lo, hi]).collect();
    let mut out = Vec::new();
    for &sign in signs {
        let mut z = POLY0;
        z[0] = if sign > 0 { hi } else { lo };
        let mut predicted = i64::from(z[0]) * i64::from(scale);
        // layer 0: one multiplicand, complete enumeration
        let (b0, i0) = (0..cands.len()).map(|i| (t0[i] * sign, i)).max().unwrap();
        z[128] = cands[i0];
        predicted += b0 * sign;
        for l in 1..8 {
            let len = 128usize >> l;
            let best: (i64, i32, i32) = guard(|| {
                (0..vs.len() * us.len())
                    .into_par_iter()
                    .map(|k| {
                        let (v, u) = (vs[k / us.len()], us[k % us.len()]);
                        let mut w = POLY0;
                        w[len] = u * scale;
                        w[len + 128] = v * scale;
                        (slot0(w) * sign, u, v)
                    })
                    .max()
                    .unwrap()
            })
            .map_err(|e| located(class, scale, e))?;
            evals += (vs.len() * us.len()) as u64;
            z[len] = best.1;
            z[len + 128] = best.2;
            predicted += best.0 * sign;
        }
        let g = Growth { class: class.to_string(), sign, coeffs: z, scale, predicted, actual: 0, evals };
        let actual = guard(|| slot0(g.input())).map_err(|e| located(class, scale, e))?;
        out.push(Growth { actual, ..g });
    }
    Ok(out)
}
