//! The finite alphabets (DESIGN 3.5).

use crate::report::Tier;
use refmodel::{Mode, Params, Poly, POLY0};

pub fn shake(parts: &[&[u8]], n: usize) -> Vec<u8> { refmodel::shake256(parts, n) }

/// counter seed i under VERIF_SEED
pub fn counter32(verif_seed: u64, tag: &str, i: u64) -> [u8; 32] {
    let v = shake(&[b"fips204-verif", tag.as_bytes(), &verif_seed.to_le_bytes(), &i.to_le_bytes()], 32);
    v.try_into().unwrap()
}
pub fn one_hot32(bit: usize) -> [u8; 32] {
    let mut s = [0u8; 32];
    s[bit / 8] = 1 << (bit % 8);
    s
}

/// one length on each side of every absorb/pad boundary of the hashes involved
pub fn msg_lengths(tier: Tier) -> Vec<usize> {
    match tier {
        Tier::Quick => vec![0, 1, 8, 70, 71, 136, 137, 168, 1000],
        Tier::Thorough => {
            vec![0, 1, 8, 55, 56, 64, 69, 70, 71, 111, 112, 128, 135, 136, 137, 167, 168, 169, 272, 1000, 4096]
        }
    }
}
/// pattern 0: zeros, 1: 0xFF, 2: counter
pub fn msg(len: usize, pat: usize) -> Vec<u8> {
    match pat {
        0 => vec![0u8; len],
        1 => vec![0xFFu8; len],
        _ => (0..len).map(|i| (i.wrapping_mul(7).wrapping_add(3)) as u8).collect(),
    }
}
pub fn ctx_ok_lengths(tier: Tier) -> Vec<usize> {
    match tier {
        Tier::Quick => vec![0, 1, 128, 255],
        Tier::Thorough => vec![0, 1, 2, 127, 128, 254, 255],
    }
}
pub fn ctx_bad_lengths() -> Vec<usize> { vec![256, 257, 511, 512, 513, 767, 768, 1024, 1100] }
pub fn ctx(len: usize) -> Vec<u8> { (0..len).map(|i| (i.wrapping_mul(5).wrapping_add(1)) as u8).collect() }

pub fn rnds(tier: Tier, verif_seed: u64) -> Vec<[u8; 32]> {
    let mut v = vec![[0u8; 32], [0xFFu8; 32], counter32(verif_seed, "rnd", 0)];
    if tier == Tier::Thorough {
        for i in 1..4 {
            v.push(counter32(verif_seed, "rnd", i));
        }
        v.push(one_hot32(0));
        v.push(one_hot32(255));
    }
    v
}
pub fn seeds(tier: Tier, verif_seed: u64) -> Vec<[u8; 32]> {
    let mut v = vec![[0u8; 32], [0xFFu8; 32], counter32(verif_seed, "seed", 0)];
    if tier == Tier::Thorough {
        for i in 1..14 {
            v.push(counter32(verif_seed, "seed", i));
        }
    }
    v
}

#[derive(Clone, Debug)]
pub struct Probe {
    pub mode: Mode,
    pub msg: Vec<u8>,
    pub ctx: Vec<u8>,
    pub rnd: [u8; 32],
}
impl Probe {
    pub fn json(&self) -> serde_json::Value {
        serde_json::json!({"mode": format!("{:?}", self.mode), "msg_len": self.msg.len(), "msg": refmodel::hex(&self.msg[..self.msg.len().min(48)]),
            "ctx_len": self.ctx.len(), "rnd": refmodel::hex(&self.rnd)})
    }
    pub fn json_full(&self) -> serde_json::Value {
        serde_json::json!({"mode": format!("{:?}", self.mode), "msg": refmodel::hex(&self.msg), "ctx": refmodel::hex(&self.ctx), "rnd": refmodel::hex(&self.rnd)})
    }
}
pub fn mode_from_str(s: &str) -> Mode {
    match s {
        "Pure" => Mode::Pure,
        "Sha256" => Mode::Sha256,
        "Sha512" => Mode::Sha512,
        "Shake128" => Mode::Shake128,
        "Internal" => Mode::Internal,
        _ => panic!("bad mode {s}"),
    }
}

/// The probe alphabet: MSG x CTX x modes x RND. `modes` lets a check restrict to the external modes.
pub fn probes(tier: Tier, verif_seed: u64, modes: &[Mode]) -> Vec<Probe> {
    let mut out = Vec::new();
    let lens = msg_lengths(tier);
    let ctxs = ctx_ok_lengths(tier);
    let rn = rnds(tier, verif_seed);
    for (li, &ml) in lens.iter().enumerate() {
        for (ci, &cl) in ctxs.iter().enumerate() {
            for &mode in modes {
                for (ri, rnd) in rn.iter().enumerate() {
                    // message content pattern rotates so that every length meets every pattern over the product
                    let pat = (li + ci + ri) % 3;
                    out.push(Probe { mode, msg: msg(ml, pat), ctx: ctx(cl), rnd: *rnd });
                }
            }
        }
    }
    out
}
/// a small probe battery (used per state where the full product would be too slow)
pub fn probes_small(verif_seed: u64, modes: &[Mode]) -> Vec<Probe> {
    let mut out = Vec::new();
    for (i, &mode) in modes.iter().enumerate() {
        out.push(Probe { mode, msg: msg([0, 71, 137, 8, 1000][i % 5], 2), ctx: ctx([0, 255, 1, 128, 3][i % 5]), rnd: counter32(verif_seed, "rnd", i as u64) });
    }
    out
}

// ---------------------------------------------------------------- key shapes

pub fn const_poly(v: i32) -> Poly { [v; 256] }

/// valid (in-range) extremal private-key encodings built on the parts of a reference key
pub fn sk_shapes(p: &'static Params, base: &refmodel::KeyGenOut) -> Vec<(String, Vec<u8>)> {
    let eta = p.eta as i32;
    let mut out = Vec::new();
    let enc = |rho: &[u8], key: &[u8], tr: &[u8], s1: &[Poly], s2: &[Poly], t0: &[Poly]| refmodel::sk_encode(p, rho, key, tr, s1, s2, t0);
    out.push(("generated".to_string(), base.sk.clone()));
    out.push(("s_all_plus_eta".to_string(), enc(&base.rho, &base.key, &base.tr, &vec![const_poly(eta); p.l], &vec![const_poly(eta); p.k], &base.t0)));
    out.push(("s_all_minus_eta".to_string(), enc(&base.rho, &base.key, &base.tr, &vec![const_poly(-eta); p.l], &vec![const_poly(-eta); p.k], &base.t0)));
    out.push(("t0_all_max".to_string(), enc(&base.rho, &base.key, &base.tr, &base.s1, &base.s2, &vec![const_poly(4096); p.k])));
    out.push(("t0_all_min".to_string(), enc(&base.rho, &base.key, &base.tr, &base.s1, &base.s2, &vec![const_poly(-4095); p.k])));
    out.push(("K_tr_zero".to_string(), enc(&base.rho, &[0u8; 32], &[0u8; 64], &base.s1, &base.s2, &base.t0)));
    out.push(("K_tr_ff".to_string(), enc(&base.rho, &[0xFFu8; 32], &[0xFFu8; 64], &base.s1, &base.s2, &base.t0)));
    out.push(("all_zero_polys".to_string(), enc(&[0u8; 32], &[0u8; 32], &[0u8; 64], &vec![POLY0; p.l], &vec![POLY0; p.k], &vec![POLY0; p.k])));
    let alt: Poly = core::array::from_fn(|i| if i % 2 == 0 { eta } else { -eta });
    let altt: Poly = core::array::from_fn(|i| if i % 2 == 0 { 4096 } else { -4095 });
    out.push(("alternating_extremes".to_string(), enc(&base.rho, &base.key, &base.tr, &vec![alt; p.l], &vec![alt; p.k], &vec![altt; p.k])));
    // whole-polynomial structure that no single-field sweep and no generated key has: constant secrets for every legal
    // value, the zero secret (the private key of the t1 = 0 public key), zero t0, and one zero polynomial at a time
    for c in -eta..=eta {
        out.push((format!("s_all_{c}"), enc(&base.rho, &base.key, &base.tr, &vec![const_poly(c); p.l], &vec![const_poly(c); p.k], &base.t0)));
    }
    out.push(("t0_all_zero".to_string(), enc(&base.rho, &base.key, &base.tr, &base.s1, &base.s2, &vec![POLY0; p.k])));
    out.push(("s_zero_t0_zero".to_string(), enc(&base.rho, &base.key, &base.tr, &vec![POLY0; p.l], &vec![POLY0; p.k], &vec![POLY0; p.k])));
    for i in 0..p.l {
        let mut s1 = base.s1.clone();
        s1[i] = POLY0;
        out.push((format!("s1[{i}]_zero"), enc(&base.rho, &base.key, &base.tr, &s1, &base.s2, &base.t0)));
    }
    for i in 0..p.k {
        let mut s2 = base.s2.clone();
        s2[i] = POLY0;
        out.push((format!("s2[{i}]_zero"), enc(&base.rho, &base.key, &base.tr, &base.s1, &s2, &base.t0)));
        let mut t0 = base.t0.clone();
        t0[i] = POLY0;
        out.push((format!("t0[{i}]_zero"), enc(&base.rho, &base.key, &base.tr, &base.s1, &base.s2, &t0)));
        for v in [1, -1] {
            let mut t0 = base.t0.clone();
            t0[i] = const_poly(v);
            out.push((format!("t0[{i}]_all_{v}"), enc(&base.rho, &base.key, &base.tr, &base.s1, &base.s2, &t0)));
        }
    }
    out
}

/// public-key shapes
pub fn pk_shapes(p: &'static Params, base: &refmodel::KeyGenOut) -> Vec<(String, Vec<u8>)> {
    let mut out = Vec::new();
    out.push(("generated".to_string(), base.pk.clone()));
    out.push(("zero_t1".to_string(), refmodel::zero_t1_pk(p, &[0x42u8; 32])));
    out.push(("all_00".to_string(), vec![0u8; p.pk_len]));
    out.push(("all_ff".to_string(), vec![0xFFu8; p.pk_len]));
    let alt: Poly = core::array::from_fn(|i| if i % 2 == 0 { 0 } else { 1023 });
    out.push(("alternating_0_1023".to_string(), refmodel::pk_encode(p, &base.rho, &vec![alt; p.k])));
    let cnt: Poly = core::array::from_fn(|i| ((i * 37 + 11) % 1024) as i32);
    out.push(("counter".to_string(), refmodel::pk_encode(p, &[0xA5u8; 32], &vec![cnt; p.k])));
    out
}
