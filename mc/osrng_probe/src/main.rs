//! Calls each OS-RNG convenience function twice, printing one line per operation (unbuffered write(2) so that the
//! lines interleave with the getrandom syscalls in an strace log).
//!   OP <name> ok <digest-of-output> [verifies=<bool>]   |   OP <name> ERR <message>
use fips204::traits::{KeyGen, SerDes, Signer, Verifier};
use std::io::Write;

fn say(s: String) {
    let mut o = std::io::stdout();
    o.write_all(s.as_bytes()).unwrap();
    o.write_all(b"\n").unwrap();
    o.flush().unwrap();
}
fn dg(parts: &[&[u8]]) -> String { refmodel::hex(&refmodel::shake256(parts, 16)) }

macro_rules! run_set {
    ($ns:ident, $id:expr) => {{
        use fips204::$ns as ns;
        let (pk0, sk0) = ns::KG::keygen_from_seed(&[9u8; 32]);
        say(format!("BEGIN {}", $id));
        for i in 0..2 {
            say(format!("START {} try_keygen#{i}", $id));
            match ns::try_keygen() {
                Ok((pk, sk)) => say(format!("OP {} try_keygen#{i} ok {}", $id, dg(&[&pk.into_bytes(), &sk.into_bytes()]))),
                Err(e) => say(format!("OP {} try_keygen#{i} ERR {e}", $id)),
            }
        }
        say(format!("START {} KG::try_keygen", $id));
        match ns::KG::try_keygen() {
            Ok((pk, sk)) => say(format!("OP {} KG::try_keygen ok {}", $id, dg(&[&pk.into_bytes(), &sk.into_bytes()]))),
            Err(e) => say(format!("OP {} KG::try_keygen ERR {e}", $id)),
        }
        for i in 0..2 {
            say(format!("START {} try_sign#{i}", $id));
            match sk0.try_sign(b"os-rng", b"ctx") {
                Ok(s) => say(format!("OP {} try_sign#{i} ok {} verifies={}", $id, dg(&[&s]), pk0.verify(b"os-rng", &s, b"ctx"))),
                Err(e) => say(format!("OP {} try_sign#{i} ERR {e}", $id)),
            }
        }
        for (i, ph) in [fips204::Ph::SHA256, fips204::Ph::SHA512, fips204::Ph::SHAKE128, fips204::Ph::SHA256].iter().enumerate() {
            say(format!("START {} try_hash_sign#{i}", $id));
            match sk0.try_hash_sign(b"os-rng", b"ctx", ph) {
                Ok(s) => say(format!("OP {} try_hash_sign#{i} ok {} verifies={}", $id, dg(&[&s]), pk0.hash_verify(b"os-rng", &s, b"ctx", ph))),
                Err(e) => say(format!("OP {} try_hash_sign#{i} ERR {e}", $id)),
            }
        }
    }};
}

fn main() {
    let args: Vec<String> = std::env::args().collect();
    if args.len() == 4 && args[1] == "refkeygen" {
        let p = refmodel::params(args[2].parse().unwrap());
        let xi: [u8; 32] = refmodel::unhex(&args[3]).try_into().unwrap();
        let kg = refmodel::keygen_internal(p, &xi);
        println!("{}", dg(&[&kg.pk, &kg.sk]));
        return;
    }
    run_set!(ml_dsa_44, 44);
    run_set!(ml_dsa_65, 65);
    run_set!(ml_dsa_87, 87);
    say("DONE".to_string());
}
