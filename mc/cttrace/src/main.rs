#![allow(dead_code, unused_variables)]
//! E4 cttrace: exact edge + load/store-address traces of the compiled code (LLVM SanitizerCoverage
//! callbacks implemented here), compared across inputs that differ only in secret data.
//! Built with: -Cpasses=sancov-module -Cllvm-args=-sanitizer-coverage-level=3 -trace-pc-guard -trace-loads -trace-stores
//! Output: one JSON line per group: {"group":..,"inputs":N,"distinct_traces":D,"events":E,...}
#![allow(clippy::missing_safety_doc, static_mut_refs)]

#[cfg(feature = "kernels")]
use fips204::verif_hooks as hk;
use rand_core::{CryptoRng, RngCore};

// ---------------------------------------------------------------- tracer state (single-threaded)
static mut ON: bool = false;
static mut H1: u64 = 0;
static mut H2: u64 = 0;
static mut N: u64 = 0;
static mut NEXT_GUARD: u32 = 1;
static mut RECORD: bool = false;
static mut LOG: Vec<(u8, u64)> = Vec::new();
static mut BASE: u64 = 0;

#[inline(always)]
unsafe fn ev(kind: u8, val: u64) {
    if !ON {
        return;
    }
    // addresses on the stack are recorded relative to the harness frame that started the trace
    let v = val.wrapping_sub(BASE);
    H1 = (H1 ^ v ^ (u64::from(kind) << 56)).wrapping_mul(0x0000_0100_0000_01b3);
    H2 = (H2.rotate_left(7) ^ v.wrapping_mul(0x9E37_79B9_7F4A_7C15)).wrapping_add(u64::from(kind));
    N += 1;
    if RECORD {
        ON = false;
        LOG.push((kind, v));
        ON = true;
    }
}

#[no_mangle]
pub unsafe extern "C" fn __sanitizer_cov_trace_pc_guard_init(start: *mut u32, stop: *mut u32) {
    let mut p = start;
    while p < stop {
        if *p == 0 {
            *p = NEXT_GUARD;
            NEXT_GUARD += 1;
        }
        p = p.add(1);
    }
}
#[no_mangle]
pub unsafe extern "C" fn __sanitizer_cov_trace_pc_guard(guard: *mut u32) { ev(1, u64::from(*guard).wrapping_add(BASE)) }
macro_rules! ls {
    ($($name:ident, $kind:expr);*) => { $(
        #[no_mangle]
        pub unsafe extern "C" fn $name(addr: *const u8) { ev($kind, addr as u64) }
    )* };
}
ls!(__sanitizer_cov_load1, 2; __sanitizer_cov_load2, 2; __sanitizer_cov_load4, 2; __sanitizer_cov_load8, 2; __sanitizer_cov_load16, 2;
    __sanitizer_cov_store1, 3; __sanitizer_cov_store2, 3; __sanitizer_cov_store4, 3; __sanitizer_cov_store8, 3; __sanitizer_cov_store16, 3);

#[inline(never)]
fn traced_core<T>(f: &dyn Fn() -> T, record: bool) -> (T, (u64, u64, u64)) {
    let marker = 0u8;
    unsafe {
        LOG.clear();
        RECORD = record;
        BASE = (&marker as *const u8 as u64) & !0xFFF;
        H1 = 0xcbf2_9ce4_8422_2325;
        H2 = 0;
        N = 0;
        ON = true;
    }
    let r = f();
    unsafe {
        ON = false;
        RECORD = false;
        (r, (H1, H2, N))
    }
}

/// same as `traced`, additionally returning the full ordered event list (kind, value). Both go through `traced_core`
/// from the same stack depth, so that the recorded run has the same stack addresses as an unrecorded one.
#[inline(always)]
fn traced_rec<T>(f: &dyn Fn() -> T) -> (T, (u64, u64, u64), Vec<(u8, u64)>) {
    let (r, t) = traced_core(f, true);
    (r, t, unsafe { std::mem::take(&mut LOG) })
}
#[inline(always)]
fn traced<T>(f: impl Fn() -> T) -> (T, (u64, u64, u64)) { traced_core(&f, false) }

// Inputs are staged in FIXED buffers before a traced call: an input that lives at a different address for every run
// (an element of a Vec) would make the recorded load addresses differ although the code under test is the same.
static mut RNG_IN: [u8; 64] = [0u8; 64];
static mut POLY_IN: [[i32; 256]; 4] = [[0i32; 256]; 4];
trait Stage {
    /// copy self into the fixed staging area and return a reference into it
    fn stage(&self) -> &'static Self;
}
impl Stage for [i32; 256] {
    fn stage(&self) -> &'static Self {
        unsafe {
            POLY_IN[0] = *self;
            &POLY_IN[0]
        }
    }
}
impl Stage for [[i32; 256]; 4] {
    fn stage(&self) -> &'static Self {
        unsafe {
            POLY_IN = *self;
            &POLY_IN
        }
    }
}
impl Stage for [u8; 64] {
    fn stage(&self) -> &'static Self {
        unsafe {
            RNG_IN = *self;
            &RNG_IN
        }
    }
}

// ---------------------------------------------------------------- groups

struct Group {
    name: String,
    inputs: u64,
    traces: std::collections::BTreeMap<(u64, u64, u64), (u64, String)>,
    ref_log: Option<(Vec<(u8, u64)>, String)>,
    divergence: Option<String>,
}
impl Group {
    fn new(name: &str) -> Group { Group { name: name.to_string(), inputs: 0, traces: Default::default(), ref_log: None, divergence: None } }
    /// first divergence between the recorded reference run and `log`
    fn localise(&mut self, log: &[(u8, u64)], label: &str) {
        let Some((a, la)) = &self.ref_log else { return };
        let kinds = ["?", "edge", "load", "store"];
        let n = a.len().min(log.len());
        let idx = (0..n).find(|&i| a[i] != log[i]).unwrap_or(n);
        let last_edges: Vec<u64> = a[..idx].iter().rev().filter(|e| e.0 == 1).take(3).map(|e| e.1).collect();
        let show = |l: &[(u8, u64)]| l.get(idx).map(|e| format!("{}:{:#x}", kinds[e.0 as usize & 3], e.1)).unwrap_or_else(|| "end-of-trace".into());
        self.divergence = Some(format!("event #{idx}: input '{la}' -> {}, input '{label}' -> {}; last edges before it {last_edges:?}; lengths {} vs {}", show(a), show(log), a.len(), log.len()));
    }
    fn add(&mut self, t: (u64, u64, u64), label: impl FnOnce() -> String) {
        self.inputs += 1;
        let e = self.traces.entry(t).or_insert_with(|| (0, label()));
        e.0 += 1;
    }
    fn emit(&self) {
        let mut reps: Vec<String> = self.traces.iter().take(4).map(|(k, v)| format!("{{\"events\":{},\"count\":{},\"first_input\":\"{}\"}}", k.2, v.0, v.1)).collect();
        reps.sort();
        println!("{{\"group\":\"{}\",\"inputs\":{},\"distinct_traces\":{},\"examples\":[{}],\"first_divergence\":\"{}\"}}", self.name, self.inputs, self.traces.len(), reps.join(","), self.divergence.clone().unwrap_or_default());
    }
}

struct Replay {
    data: [u8; 64],
    pos: usize,
}
impl RngCore for Replay {
    fn next_u32(&mut self) -> u32 { unimplemented!() }
    fn next_u64(&mut self) -> u64 { unimplemented!() }
    fn fill_bytes(&mut self, _d: &mut [u8]) { unimplemented!() }
    fn try_fill_bytes(&mut self, d: &mut [u8]) -> Result<(), rand_core::Error> {
        for b in d.iter_mut() {
            *b = self.data[self.pos % 64];
            self.pos += 1;
        }
        Ok(())
    }
}
impl CryptoRng for Replay {}

fn splitmix(x: &mut u64) -> u64 {
    *x = x.wrapping_add(0x9E37_79B9_7F4A_7C15);
    let mut z = *x;
    z = (z ^ (z >> 30)).wrapping_mul(0xBF58_476D_1CE4_E5B9);
    z = (z ^ (z >> 27)).wrapping_mul(0x94D0_49BB_1331_11EB);
    z ^ (z >> 31)
}
/// committed model-/subject-selected RNG answers for which an intermediate of the test-mode run hits a rare value
/// (e.g. NTT(c) has a zero coefficient): witnesses/ct_rare_inputs.json, entries {"rng_answers": hex128, "set": id}
fn rare_inputs(set: u32) -> Vec<([u8; 64], String)> {
    let root = std::env::var("VERIF_ROOT").unwrap_or_else(|_| "/verif".to_string());
    let Ok(text) = std::fs::read_to_string(format!("{root}/witnesses/ct_rare_inputs.json")) else { return Vec::new() };
    let mut out = Vec::new();
    for (k, obj) in text.split('{').enumerate() {
        let Some(p) = obj.find("\"rng_answers\": \"") else { continue };
        let hex: String = obj[p + 16..].chars().take_while(|c| c.is_ascii_hexdigit()).collect();
        let this_set = obj.find("\"set\": ").map(|q| obj[q + 7..].chars().take_while(|c| c.is_ascii_digit()).collect::<String>()).unwrap_or_default();
        if hex.len() == 128 && this_set == set.to_string() {
            let mut d = [0u8; 64];
            for i in 0..64 {
                d[i] = u8::from_str_radix(&hex[2 * i..2 * i + 2], 16).unwrap();
            }
            out.push((d, format!("rare{k}")));
        }
    }
    out
}

fn rng_inputs(ncounter: u64, seed: u64) -> Vec<([u8; 64], String)> {
    let mut v: Vec<([u8; 64], String)> = vec![([0u8; 64], "00".into()), ([0xFF; 64], "ff".into()), ([0xAA; 64], "aa".into()), ([0x55; 64], "55".into())];
    for bit in 0..512 {
        let mut d = [0u8; 64];
        d[bit / 8] = 1 << (bit % 8);
        v.push((d, format!("onehot{bit}")));
    }
    let mut s = seed ^ 0x1234_5678;
    for i in 0..ncounter {
        let mut d = [0u8; 64];
        for c in d.chunks_mut(8) {
            c.copy_from_slice(&splitmix(&mut s).to_le_bytes());
        }
        v.push((d, format!("counter{i}")));
    }
    v
}

/// run one input: the first input of a group is recorded as the reference; when a second distinct trace shows up the
/// offending input is re-run in recording mode and the first differing event is reported
macro_rules! run_input {
    ($g:expr, $label:expr, $f:expr) => {{
        // ONE closure object: the reference run, the normal run and the re-run execute the same compiled code
        let f = $f;
        if $g.ref_log.is_none() {
            let (_, t, log) = traced_rec(&f);
            $g.ref_log = Some((log, $label()));
            $g.add(t, $label);
        } else {
            let (_, t) = traced_core(&f, false);
            $g.add(t, $label);
            if $g.traces.len() > 1 && $g.divergence.is_none() {
                let (_, _t2, log) = traced_rec(&f);
                if $g.ref_log.as_ref().map(|r| r.0 != log).unwrap_or(false) {
                    let l: String = $label();
                    $g.localise(&log, &l);
                }
            }
        }
    }};
}

macro_rules! pipeline {
    ($g:expr, $ns:ident, $inputs:expr, $msg:expr) => {{
        for (d, label) in $inputs.iter() {
            let d: &'static [u8; 64] = d.stage();
            #[allow(deprecated)]
            let f = || {
                let mut rng = Replay { data: *d, pos: 0 };
                fips204::$ns::dudect_keygen_sign_with_rng(&mut rng, $msg).is_ok()
            };
            run_input!($g, || label.clone(), f);
        }
    }};
}

const Q: i32 = 8_380_417;
type Poly = [i32; 256];

fn coeff_alphabet(a: i32, b: i32) -> Vec<i32> {
    let mut v = vec![-a, -a + 1, -1, 0, 1, b - 1, b];
    let mut p = 2;
    while p < b {
        v.push(p);
        if p <= a {
            v.push(-p);
        }
        p *= 2;
    }
    v.retain(|&x| x >= -a && x <= b);
    v.sort_unstable();
    v.dedup();
    v
}
/// one-hot (position x alphabet) + dense extremal + counter vectors with coefficients in [-a, b]
fn poly_inputs(a: i32, b: i32, positions: usize) -> Vec<(Poly, String)> {
    let mut out: Vec<(Poly, String)> = Vec::new();
    let al = coeff_alphabet(a, b);
    for pos in (0..256).step_by(256 / positions) {
        for &v in &al {
            let mut w = [0i32; 256];
            w[pos] = v;
            out.push((w, format!("onehot[{pos}]={v}")));
        }
    }
    out.push(([0i32; 256], "all-zero".into()));
    out.push(([b; 256], "all=b".into()));
    out.push(([-a; 256], "all=-a".into()));
    out.push((core::array::from_fn(|i| if i % 2 == 0 { b } else { -a }), "alternating".into()));
    let span = i64::from(a) + i64::from(b) + 1;
    let mut s = 99u64;
    for k in 0..8 {
        out.push((core::array::from_fn(|_| (-i64::from(a) + (splitmix(&mut s) % span as u64) as i64) as i32), format!("pseudo{k}")));
    }
    out
}

fn main() {
    let args: Vec<String> = std::env::args().collect();
    let thorough = args.iter().any(|a| a == "thorough");
    let seed: u64 = std::env::var("VERIF_SEED").ok().and_then(|s| s.parse().ok()).unwrap_or(0);
    // ---- tracer self-test: a deliberately data-dependent function must give two traces
    {
        #[inline(never)]
        fn leaky(x: &[i32; 8]) -> i32 {
            for (i, v) in x.iter().enumerate() {
                if *v > 5 {
                    return i as i32;
                }
            }
            -1
        }
        let mut g = Group::new("selftest:early-exit-is-seen");
        for k in 0..8 {
            let mut x = [0i32; 8];
            x[k] = 9;
            let (_, t) = traced(|| leaky(std::hint::black_box(&x)));
            g.add(t, || format!("pos{k}"));
        }
        g.emit();
        // positive control inside the library: is_in_range exits early on failure
        #[cfg(feature = "kernels")]
        {
            let mut g = Group::new("control:is_in_range-on-failing-input");
            for k in (0..256).step_by(16) {
                let mut w = [0i32; 256];
                w[k] = 100;
                let (_, t) = traced(|| hk::is_in_range(std::hint::black_box(&w), 2, 2));
                g.add(t, || format!("pos{k}"));
            }
            g.emit();
        }
    }
    // ---- (i) whole pipeline in constant-time test mode
    let inputs = rng_inputs(if thorough { 4096 } else { 448 }, seed);
    for (mi, msg) in [&b"m"[..], &[7u8; 200][..]].iter().enumerate() {
        let sub: Vec<([u8; 64], String)> = if mi == 0 { inputs.clone() } else { inputs.iter().step_by(8).cloned().collect() };
        // the rare-event answers were selected for the 1-byte message "m"
        let with_rare = |set: u32| -> Vec<([u8; 64], String)> {
            let mut v = sub.clone();
            if mi == 0 {
                v.extend(rare_inputs(set));
            }
            v
        };
        let mut g = Group::new(&format!("pipeline:ml_dsa_44:|M|={}", msg.len()));
        pipeline!(g, ml_dsa_44, with_rare(44), msg);
        g.emit();
        let mut g = Group::new(&format!("pipeline:ml_dsa_65:|M|={}", msg.len()));
        pipeline!(g, ml_dsa_65, with_rare(65), msg);
        g.emit();
        let mut g = Group::new(&format!("pipeline:ml_dsa_87:|M|={}", msg.len()));
        pipeline!(g, ml_dsa_87, with_rare(87), msg);
        g.emit();
    }
    // ---- (i-b) NORMAL-mode signing (rejection sampling active), secret-only variation: keys that differ only in s1 and
    // whose reference rejection sequences agree have an identical public transcript (witnesses/ct_paired_s1.json)
    paired_s1_groups(thorough);
    #[cfg(feature = "kernels")]
    kernel_groups(thorough, &inputs);
    #[cfg(not(feature = "kernels"))]
    println!("{{\"no_kernels\":true}}");
    println!("{{\"done\":true}}");
}

fn unhex32(s: &str) -> [u8; 32] { core::array::from_fn(|i| u8::from_str_radix(&s[2 * i..2 * i + 2], 16).unwrap()) }

macro_rules! paired_set {
    ($ns:ident, $id:expr, $eta_bits:expr, $l:expr, $v:expr, $thorough:expr) => {{
        use fips204::traits::{KeyGen, SerDes, Signer};
        let base_seed = unhex32($v["base_seed"].as_str().unwrap());
        let s1_seeds: Vec<[u8; 32]> = $v["s1_seeds"].as_array().unwrap().iter().map(|x| unhex32(x.as_str().unwrap())).collect();
        let base = fips204::$ns::KG::keygen_from_seed(&base_seed).1.into_bytes();
        let s1_len = 32 * $eta_bits * $l;
        // the key object lives in ONE heap slot for all inputs, so that its address does not vary between runs
        let mut slot: Box<Option<fips204::$ns::PrivateKey>> = Box::new(None);
        let groups: Vec<&serde_json::Value> = $v["groups"].as_array().unwrap().iter().filter(|g| g["set"].as_u64() == Some($id)).collect();
        for (gi, g) in groups.iter().enumerate() {
            if !$thorough && gi >= 2 {
                break;
            }
            let msg: &'static [u8] = Box::leak(g["msg"].as_str().unwrap().as_bytes().to_vec().into_boxed_slice());
            let mut grp = Group::new(&format!("normal-mode-sign:{}:s1-only-variation:rejects={}", stringify!($ns), g["rejects"].as_str().unwrap()));
            for j in g["s1_seed_indices"].as_array().unwrap() {
                let j = j.as_u64().unwrap() as usize;
                let other = fips204::$ns::KG::keygen_from_seed(&s1_seeds[j]).1.into_bytes();
                let mut skb = base;
                skb[128..128 + s1_len].copy_from_slice(&other[128..128 + s1_len]);
                *slot = Some(fips204::$ns::PrivateKey::try_from_bytes(skb).expect("spliced key is in range"));
                let sk: &fips204::$ns::PrivateKey = slot.as_ref().as_ref().unwrap();
                let f = || {
                    let mut rng = Replay { data: [0u8; 64], pos: 0 };
                    sk.try_sign_with_rng(&mut rng, msg, &[]).is_ok()
                };
                run_input!(grp, || format!("s1-seed{j}"), f);
            }
            grp.emit();
        }
    }};
}

fn paired_s1_groups(thorough: bool) {
    let root = std::env::var("VERIF_ROOT").unwrap_or_else(|_| "/verif".to_string());
    let Ok(text) = std::fs::read_to_string(format!("{root}/witnesses/ct_paired_s1.json")) else {
        println!("{{\"no_paired_witnesses\":true}}");
        return;
    };
    let v: serde_json::Value = serde_json::from_str(&text).expect("ct_paired_s1.json");
    paired_set!(ml_dsa_44, 44, 3, 4, v, thorough);
    paired_set!(ml_dsa_65, 65, 4, 5, v, thorough);
    paired_set!(ml_dsa_87, 87, 3, 7, v, thorough);
}

#[cfg(feature = "kernels")]
fn kernel_groups(thorough: bool, inputs: &[([u8; 64], String)]) {
    // ---- (ii) scalar kernels on their complete domain
    macro_rules! scalar_group {
        ($name:expr, $range:expr, $f:expr) => {{
            let mut g = Group::new($name);
            for x in $range {
                let xv = std::hint::black_box(x);
                run_input!(g, || format!("{x}"), || std::hint::black_box($f(xv)));
            }
            g.emit();
        }};
    }
    let stride: usize = if thorough { 1 } else { 1 };
    scalar_group!("center_mod:all-residues", (0..Q).step_by(stride), hk::center_mod);
    scalar_group!("center_mod:negative-representatives", (-(Q - 1)..0).step_by(if thorough { 1 } else { 7 }), hk::center_mod);
    scalar_group!("full_reduce32:(-2q,2q)", (-2 * Q + 1..2 * Q).step_by(if thorough { 1 } else { 3 }), hk::full_reduce32);
    scalar_group!("partial_reduce32:(-2q,2q)", (-2 * Q + 1..2 * Q).step_by(if thorough { 1 } else { 3 }), hk::partial_reduce32);
    for g2 in [(Q - 1) / 88, (Q - 1) / 32] {
        scalar_group!(&format!("decompose:gamma2={g2}:all-residues"), 0..Q, |r| hk::decompose(g2, r));
        scalar_group!(&format!("low_bits:gamma2={g2}:partial-reduced-representatives"), (-(Q - 1)..Q).step_by(if thorough { 1 } else { 5 }), |r| hk::low_bits(g2, r));
        scalar_group!(&format!("high_bits:gamma2={g2}:all-residues"), (0..Q).step_by(if thorough { 1 } else { 3 }), |r| hk::high_bits(g2, r));
        // make_hint: every residue r for a z alphabet that includes the corner values 0, q
        for z in [0, 1, 2, g2 - 1, g2, g2 + 1, Q - g2, Q - 1, Q, Q / 2] {
            scalar_group!(&format!("make_hint:gamma2={g2}:z={z}:r-sweep"), (-(Q - 1)..Q).step_by(if thorough { 3 } else { 257 }), |r| hk::make_hint(g2, z, r));
        }
        let mut g = Group::new(&format!("make_hint:gamma2={g2}:z-sweep"));
        for r in [0, 1, g2, Q - 1, -(Q - 1), 1234567] {
            for z in (0..=Q).step_by(if thorough { 101 } else { 4099 }).chain([0, 1, Q - 1, Q]) {
                let (zz, rr) = (std::hint::black_box(z), std::hint::black_box(r));
                let (_, t) = traced(|| std::hint::black_box(hk::make_hint(g2, zz, rr)));
                g.add(t, || format!("z={z},r={r}"));
            }
        }
        g.emit();
    }
    {
        let mut g = Group::new("mont_reduce:product-lattice");
        let mut s = 5u64;
        let mut vals: Vec<i64> = vec![0i64, 1, -1, -17_996_808_479_301_632, 17_996_808_470_921_215, i64::from(Q) << 31];
        for _ in 0..if thorough { 2_000_000 } else { 200_000 } {
            vals.push((splitmix(&mut s) as i64) >> 9); // |a| < 2^54
        }
        for a in vals {
            let av = std::hint::black_box(a);
            let (_, t) = traced(|| std::hint::black_box(hk::mont_reduce(av)));
            g.add(t, || format!("{a}"));
        }
        g.emit();
        let mut g = Group::new("partial_reduce64:x*2^32");
        for x in (-67_058_538i64..67_058_539).step_by(if thorough { 7 } else { 997 }) {
            let av = std::hint::black_box(x << 32);
            let (_, t) = traced(|| std::hint::black_box(hk::partial_reduce64(av)));
            g.add(t, || format!("{x}"));
        }
        g.emit();
    }
    // ---- vector kernels
    macro_rules! vec_group {
        ($name:expr, $inputs:expr, $f:expr) => {{
            let mut g = Group::new($name);
            for (w, label) in $inputs.iter() {
                let wv = std::hint::black_box(w.stage());
                run_input!(g, || label.clone(), || std::hint::black_box($f(wv)));
            }
            g.emit();
        }};
    }
    let npos = if thorough { 256 } else { 32 };
    let g1s = [1 << 17, 1 << 19];
    let any_q = poly_inputs(Q - 1, Q - 1, npos);
    vec_group!("infinity_norm:coefficients-in-(-q,q)", any_q, |w: &Poly| hk::infinity_norm(&[*w]));
    vec_group!("ntt:coefficients-in-(-q,q)", any_q, |w: &Poly| hk::ntt(&[*w]));
    vec_group!("inv_ntt:coefficients-in-(-q,q)", any_q, |w: &Poly| hk::inv_ntt(&[*w]));
    vec_group!("to_mont:coefficients-in-(-q,q)", any_q, |w: &Poly| hk::to_mont(&[*w]));
    vec_group!("power2round:residues", poly_inputs(0, Q - 1, npos), |w: &Poly| hk::power2round(&[*w]));
    for eta in [2, 4] {
        let ins = poly_inputs(eta, eta, npos);
        vec_group!(&format!("is_in_range:eta={eta}:in-range-inputs"), ins, |w: &Poly| hk::is_in_range(w, eta, eta));
        vec_group!(&format!("bit_pack:eta={eta}"), ins, |w: &Poly| {
            let mut out = [0u8; 128];
            hk::bit_pack(w, eta, eta, &mut out[..32 * if eta == 2 { 3 } else { 4 }]);
            out
        });
        vec_group!(&format!("ntt:eta={eta}"), ins, |w: &Poly| hk::ntt(&[*w]));
    }
    {
        let ins = poly_inputs(4095, 4096, npos);
        vec_group!("bit_pack:t0", ins, |w: &Poly| {
            let mut out = [0u8; 416];
            hk::bit_pack(w, 4095, 4096, &mut out);
            out
        });
        vec_group!("is_in_range:t0:in-range-inputs", ins, |w: &Poly| hk::is_in_range(w, 4095, 4096));
    }
    for g1 in g1s {
        let ins = poly_inputs(g1 - 1, g1, npos);
        vec_group!(&format!("bit_pack:z:gamma1={g1}"), ins, |w: &Poly| {
            let mut out = [0u8; 640];
            hk::bit_pack(w, g1 - 1, g1, &mut out[..32 * if g1 == 1 << 17 { 18 } else { 20 }]);
            out
        });
        vec_group!(&format!("is_in_range:z:gamma1={g1}:in-range-inputs"), ins, |w: &Poly| hk::is_in_range(w, g1 - 1, g1));
    }
    // multi-polynomial calls where some polynomials are entirely zero
    {
        let dense: Poly = core::array::from_fn(|i| (i as i32 * 7919) % Q - Q / 2);
        let combos: Vec<([Poly; 4], String)> = (0..16u32).map(|m| (core::array::from_fn(|j| if (m >> j) & 1 == 1 { dense } else { [0i32; 256] }), format!("nonzero-mask{m:04b}"))).collect();
        vec_group!("ntt:4-polys:zero-polynomial-patterns", combos, |w: &[Poly; 4]| hk::ntt(w));
        vec_group!("inv_ntt:4-polys:zero-polynomial-patterns", combos, |w: &[Poly; 4]| hk::inv_ntt(w));
        vec_group!("to_mont:4-polys:zero-polynomial-patterns", combos, |w: &[Poly; 4]| hk::to_mont(w));
        vec_group!("infinity_norm:4-polys:zero-polynomial-patterns", combos, |w: &[Poly; 4]| hk::infinity_norm(w));
    }
    // mat_vec_mul with a fixed public matrix and secret-like vectors
    {
        let a = hk::expand_a::<false, 4, 4>(&[3u8; 32]);
        let ins = poly_inputs(Q - 1, Q - 1, npos / 2);
        vec_group!("mat_vec_mul:4x4:secret-vector", ins, |w: &Poly| hk::mat_vec_mul::<4, 4>(&a, &[*w, *w, *w, *w]));
    }
    // ExpandMask on secret seeds, ExpandS in test mode
    {
        let mut g = Group::new("expand_mask:secret-seed");
        let mut g2 = Group::new("expand_s<CTEST>:secret-seed");
        for (d, label) in inputs.iter().take(if thorough { 1200 } else { 300 }) {
            let d: &'static [u8; 64] = d.stage();
            run_input!(g, || label.clone(), || hk::expand_mask::<4>(1 << 17, d, 0));
            run_input!(g2, || label.clone(), || hk::expand_s::<true, 4, 4>(2, d));
        }
        g.emit();
        g2.emit();
    }
    // hint_bit_pack in test mode on secret-dependent hint vectors
    {
        let mut g = Group::new("hint_bit_pack<CTEST>:hint-vectors");
        let mut s = 77u64;
        for k in 0..if thorough { 400 } else { 60 } {
            let h: [Poly; 4] = core::array::from_fn(|_| core::array::from_fn(|_| i32::from(splitmix(&mut s) % 13 == 0 && k % 3 != 0)));
            let hv = std::hint::black_box(h.stage());
            run_input!(g, || format!("h{k}"), || {
                let mut y = [0u8; 84];
                hk::hint_bit_pack::<true, 4>(80, hv, &mut y);
                y
            });
        }
        g.emit();
    }
}
