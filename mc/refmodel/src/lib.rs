//! Spec-literal reference model of FIPS 204 (ML-DSA), Algorithms 1-49.
//!
//! Deliberately boring: bit lists for the bit/byte conversions, `i64` arithmetic with `%`,
//! textbook NTT with zeta^{brv(k)} computed by modular exponentiation, no Montgomery form, no
//! shared code with the implementation under test. Hashes come from `sha2`/`sha3`.
//!
//! Besides the standard functions it exposes the internals the standard defines (mu, kappa,
//! norms, hint weight, which rejection fired) so that enumeration can be guided to rare events.

use sha2::Digest;
use sha3::digest::{ExtendableOutput, Update, XofReader};

pub const Q: i64 = 8_380_417;
pub const D: u32 = 13;
pub const ZETA: i64 = 1753;
pub type Poly = [i32; 256];
pub const POLY0: Poly = [0i32; 256];

#[derive(Clone, Copy, Debug, PartialEq, Eq)]
pub struct Params {
    pub id: u32,
    pub tau: usize,
    pub lambda: usize,
    pub gamma1: i64,
    pub gamma2: i64,
    pub k: usize,
    pub l: usize,
    pub eta: i64,
    pub beta: i64,
    pub omega: usize,
    pub pk_len: usize,
    pub sk_len: usize,
    pub sig_len: usize,
}

pub const P44: Params = Params {
    id: 44, tau: 39, lambda: 128, gamma1: 1 << 17, gamma2: (Q - 1) / 88, k: 4, l: 4, eta: 2, beta: 78,
    omega: 80, pk_len: 1312, sk_len: 2560, sig_len: 2420,
};
pub const P65: Params = Params {
    id: 65, tau: 49, lambda: 192, gamma1: 1 << 19, gamma2: (Q - 1) / 32, k: 6, l: 5, eta: 4, beta: 196,
    omega: 55, pk_len: 1952, sk_len: 4032, sig_len: 3309,
};
pub const P87: Params = Params {
    id: 87, tau: 60, lambda: 256, gamma1: 1 << 19, gamma2: (Q - 1) / 32, k: 8, l: 7, eta: 2, beta: 120,
    omega: 75, pk_len: 2592, sk_len: 4896, sig_len: 4627,
};
pub const ALL_PARAMS: [&Params; 3] = [&P44, &P65, &P87];
pub fn params(id: u32) -> &'static Params {
    match id {
        44 => &P44,
        65 => &P65,
        87 => &P87,
        _ => panic!("unknown parameter set {id}"),
    }
}
impl Params {
    pub fn ctilde_len(&self) -> usize { self.lambda / 4 }
    pub fn z_bits(&self) -> usize { 1 + bitlen(self.gamma1 - 1) }
    pub fn eta_bits(&self) -> usize { bitlen(2 * self.eta) }
    pub fn w1_bits(&self) -> usize { bitlen((Q - 1) / (2 * self.gamma2) - 1) }
    /// offset of the hint section inside a signature
    pub fn hint_off(&self) -> usize { self.ctilde_len() + self.l * 32 * self.z_bits() }
}

// ---------------------------------------------------------------- hashing

pub fn shake256(parts: &[&[u8]], out_len: usize) -> Vec<u8> {
    let mut h = sha3::Shake256::default();
    for p in parts {
        h.update(p);
    }
    let mut out = vec![0u8; out_len];
    h.finalize_xof().read(&mut out);
    out
}
pub fn shake128(parts: &[&[u8]], out_len: usize) -> Vec<u8> {
    let mut h = sha3::Shake128::default();
    for p in parts {
        h.update(p);
    }
    let mut out = vec![0u8; out_len];
    h.finalize_xof().read(&mut out);
    out
}
/// H(v, d) of FIPS 204 section 3.7: SHAKE256
pub fn h(parts: &[&[u8]], out_len: usize) -> Vec<u8> { shake256(parts, out_len) }

// ---------------------------------------------------------------- integers mod q

pub fn bitlen(x: i64) -> usize {
    assert!(x > 0);
    (64 - x.leading_zeros()) as usize
}
/// r mod q in [0, q)
pub fn mod_q(x: i64) -> i64 { x.rem_euclid(Q) }
/// m mod+- alpha: the unique m' with -alpha/2 < m' <= alpha/2 congruent to m
pub fn mod_pm(m: i64, alpha: i64) -> i64 {
    let r = m.rem_euclid(alpha);
    // r in [0, alpha). need r' in (-alpha/2, alpha/2]  i.e. 2r' <= alpha and 2r' > -alpha
    if 2 * r > alpha {
        r - alpha
    } else {
        r
    }
}
pub fn pow_mod(mut b: i64, mut e: u64) -> i64 {
    let mut r = 1i64;
    b = mod_q(b);
    while e > 0 {
        if e & 1 == 1 {
            r = r * b % Q;
        }
        b = b * b % Q;
        e >>= 1;
    }
    r
}

// ---------------------------------------------------------------- Algorithms 9-13

/// Algorithm 9: IntegerToBits(x, alpha) little-endian
pub fn integer_to_bits(x: i64, alpha: usize) -> Vec<u8> {
    assert!(x >= 0);
    let mut xp = x;
    let mut y = Vec::with_capacity(alpha);
    for _ in 0..alpha {
        y.push((xp % 2) as u8);
        xp /= 2;
    }
    y
}
/// Algorithm 10: BitsToInteger(y, alpha)
pub fn bits_to_integer(y: &[u8]) -> i64 {
    let mut x = 0i64;
    for i in 1..=y.len() {
        x = 2 * x + i64::from(y[y.len() - i]);
    }
    x
}
/// Algorithm 11: IntegerToBytes(x, alpha)
pub fn integer_to_bytes(x: u64, alpha: usize) -> Vec<u8> {
    let mut xp = x;
    let mut y = Vec::with_capacity(alpha);
    for _ in 0..alpha {
        y.push((xp % 256) as u8);
        xp /= 256;
    }
    y
}
/// Algorithm 12: BitsToBytes(y)
pub fn bits_to_bytes(y: &[u8]) -> Vec<u8> {
    let mut z = vec![0u8; y.len().div_ceil(8)];
    for (i, b) in y.iter().enumerate() {
        z[i / 8] += b << (i % 8);
    }
    z
}
/// Algorithm 13: BytesToBits(z)
pub fn bytes_to_bits(z: &[u8]) -> Vec<u8> {
    let mut y = Vec::with_capacity(z.len() * 8);
    for byte in z {
        let mut b = *byte;
        for _ in 0..8 {
            y.push(b % 2);
            b /= 2;
        }
    }
    y
}

// ---------------------------------------------------------------- Algorithms 14-15

/// Algorithm 14: CoeffFromThreeBytes
pub fn coeff_from_three_bytes(b0: u8, b1: u8, b2: u8) -> Option<i32> {
    let mut b2p = i64::from(b2);
    if b2p > 127 {
        b2p -= 128;
    }
    let z = 65536 * b2p + 256 * i64::from(b1) + i64::from(b0);
    if z < Q {
        Some(z as i32)
    } else {
        None
    }
}
/// Algorithm 15: CoeffFromHalfByte
pub fn coeff_from_half_byte(eta: i64, b: u8) -> Option<i32> {
    assert!(b < 16);
    if eta == 2 && b < 15 {
        return Some((2 - (i64::from(b) % 5)) as i32);
    }
    if eta == 4 && b < 9 {
        return Some((4 - i64::from(b)) as i32);
    }
    None
}

// ---------------------------------------------------------------- Algorithms 16-19

/// Algorithm 16: SimpleBitPack(w, b)
pub fn simple_bit_pack(w: &Poly, b: i64) -> Vec<u8> {
    let c = bitlen(b);
    let mut z = Vec::with_capacity(256 * c);
    for wi in w.iter() {
        z.extend(integer_to_bits(i64::from(*wi), c));
    }
    bits_to_bytes(&z)
}
/// Algorithm 17: BitPack(w, a, b)
pub fn bit_pack(w: &Poly, a: i64, b: i64) -> Vec<u8> {
    let c = bitlen(a + b);
    let mut z = Vec::with_capacity(256 * c);
    for wi in w.iter() {
        z.extend(integer_to_bits(b - i64::from(*wi), c));
    }
    bits_to_bytes(&z)
}
/// Algorithm 18: SimpleBitUnpack(v, b)
pub fn simple_bit_unpack(v: &[u8], b: i64) -> Poly {
    let c = bitlen(b);
    assert_eq!(v.len(), 32 * c);
    let z = bytes_to_bits(v);
    let mut w = POLY0;
    for i in 0..256 {
        w[i] = bits_to_integer(&z[i * c..i * c + c]) as i32;
    }
    w
}
/// Algorithm 19: BitUnpack(v, a, b)
pub fn bit_unpack(v: &[u8], a: i64, b: i64) -> Poly {
    let c = bitlen(a + b);
    assert_eq!(v.len(), 32 * c);
    let z = bytes_to_bits(v);
    let mut w = POLY0;
    for i in 0..256 {
        w[i] = (b - bits_to_integer(&z[i * c..i * c + c])) as i32;
    }
    w
}

// ---------------------------------------------------------------- Algorithms 20-21

/// Algorithm 20: HintBitPack(h)
pub fn hint_bit_pack(k: usize, omega: usize, h: &[Poly]) -> Vec<u8> {
    let mut y = vec![0u8; omega + k];
    let mut index = 0usize;
    for i in 0..k {
        for j in 0..256 {
            if h[i][j] != 0 {
                y[index] = j as u8;
                index += 1;
            }
        }
        y[omega + i] = index as u8;
    }
    y
}
/// Algorithm 21: HintBitUnpack(y); `None` is the standard's "bottom"
pub fn hint_bit_unpack(k: usize, omega: usize, y: &[u8]) -> Option<Vec<Poly>> {
    assert_eq!(y.len(), omega + k);
    let mut h = vec![POLY0; k];
    let mut index = 0usize;
    for i in 0..k {
        let cnt = usize::from(y[omega + i]);
        if cnt < index || cnt > omega {
            return None;
        }
        let first = index;
        while index < cnt {
            if index > first && y[index - 1] >= y[index] {
                return None;
            }
            h[i][usize::from(y[index])] = 1;
            index += 1;
        }
    }
    for i in index..omega {
        if y[i] != 0 {
            return None;
        }
    }
    Some(h)
}

// ---------------------------------------------------------------- Algorithms 22-28

/// Algorithm 22: pkEncode
pub fn pk_encode(p: &Params, rho: &[u8], t1: &[Poly]) -> Vec<u8> {
    let mut pk = rho.to_vec();
    let b = (1i64 << (bitlen(Q - 1) - D as usize)) - 1;
    for i in 0..p.k {
        pk.extend(simple_bit_pack(&t1[i], b));
    }
    pk
}
/// Algorithm 23: pkDecode
pub fn pk_decode(p: &Params, pk: &[u8]) -> (Vec<u8>, Vec<Poly>) {
    assert_eq!(pk.len(), p.pk_len);
    let bl = bitlen(Q - 1) - D as usize;
    let b = (1i64 << bl) - 1;
    let rho = pk[..32].to_vec();
    let mut t1 = Vec::new();
    for i in 0..p.k {
        t1.push(simple_bit_unpack(&pk[32 + 32 * bl * i..32 + 32 * bl * (i + 1)], b));
    }
    (rho, t1)
}
/// Algorithm 24: skEncode
pub fn sk_encode(p: &Params, rho: &[u8], key: &[u8], tr: &[u8], s1: &[Poly], s2: &[Poly], t0: &[Poly]) -> Vec<u8> {
    let mut sk = Vec::new();
    sk.extend_from_slice(rho);
    sk.extend_from_slice(key);
    sk.extend_from_slice(tr);
    for i in 0..p.l {
        sk.extend(bit_pack(&s1[i], p.eta, p.eta));
    }
    for i in 0..p.k {
        sk.extend(bit_pack(&s2[i], p.eta, p.eta));
    }
    for i in 0..p.k {
        sk.extend(bit_pack(&t0[i], (1 << (D - 1)) - 1, 1 << (D - 1)));
    }
    sk
}
pub struct SkParts {
    pub rho: Vec<u8>,
    pub key: Vec<u8>,
    pub tr: Vec<u8>,
    pub s1: Vec<Poly>,
    pub s2: Vec<Poly>,
    pub t0: Vec<Poly>,
}
/// Algorithm 25: skDecode (s1/s2 may lie outside [-eta, eta] on malformed input, as the standard notes)
pub fn sk_decode(p: &Params, sk: &[u8]) -> SkParts {
    assert_eq!(sk.len(), p.sk_len);
    let eb = 32 * p.eta_bits();
    let mut off = 128;
    let mut s1 = Vec::new();
    for _ in 0..p.l {
        s1.push(bit_unpack(&sk[off..off + eb], p.eta, p.eta));
        off += eb;
    }
    let mut s2 = Vec::new();
    for _ in 0..p.k {
        s2.push(bit_unpack(&sk[off..off + eb], p.eta, p.eta));
        off += eb;
    }
    let mut t0 = Vec::new();
    for _ in 0..p.k {
        t0.push(bit_unpack(&sk[off..off + 32 * D as usize], (1 << (D - 1)) - 1, 1 << (D - 1)));
        off += 32 * D as usize;
    }
    assert_eq!(off, sk.len());
    SkParts { rho: sk[..32].to_vec(), key: sk[32..64].to_vec(), tr: sk[64..128].to_vec(), s1, s2, t0 }
}
/// true iff every s1/s2 field of the encoding is inside [-eta, eta]
pub fn sk_fields_in_range(p: &Params, sk: &[u8]) -> bool {
    let parts = sk_decode(p, sk);
    parts.s1.iter().chain(parts.s2.iter()).all(|poly| poly.iter().all(|&c| i64::from(c) >= -p.eta && i64::from(c) <= p.eta))
}
/// Algorithm 26: sigEncode
pub fn sig_encode(p: &Params, c_tilde: &[u8], z: &[Poly], hint: &[Poly]) -> Vec<u8> {
    let mut s = c_tilde.to_vec();
    for i in 0..p.l {
        s.extend(bit_pack(&z[i], p.gamma1 - 1, p.gamma1));
    }
    s.extend(hint_bit_pack(p.k, p.omega, hint));
    s
}
/// Algorithm 27: sigDecode; hint None = bottom
pub fn sig_decode(p: &Params, sig: &[u8]) -> (Vec<u8>, Vec<Poly>, Option<Vec<Poly>>) {
    assert_eq!(sig.len(), p.sig_len);
    let cl = p.ctilde_len();
    let zb = 32 * p.z_bits();
    let c_tilde = sig[..cl].to_vec();
    let mut z = Vec::new();
    for i in 0..p.l {
        z.push(bit_unpack(&sig[cl + i * zb..cl + (i + 1) * zb], p.gamma1 - 1, p.gamma1));
    }
    let hint = hint_bit_unpack(p.k, p.omega, &sig[cl + p.l * zb..]);
    (c_tilde, z, hint)
}
/// Algorithm 28: w1Encode
pub fn w1_encode(p: &Params, w1: &[Poly]) -> Vec<u8> {
    let mut out = Vec::new();
    for i in 0..p.k {
        out.extend(simple_bit_pack(&w1[i], (Q - 1) / (2 * p.gamma2) - 1));
    }
    out
}

// ---------------------------------------------------------------- Algorithms 29-34

/// Algorithm 29: SampleInBall
pub fn sample_in_ball(p: &Params, rho: &[u8]) -> Poly {
    let mut c = POLY0;
    let mut x = sha3::Shake256::default();
    x.update(rho);
    let mut rd = x.finalize_xof();
    let mut s = [0u8; 8];
    rd.read(&mut s);
    let hb = bytes_to_bits(&s);
    for i in (256 - p.tau)..256 {
        let mut j = [0u8; 1];
        rd.read(&mut j);
        while usize::from(j[0]) > i {
            rd.read(&mut j);
        }
        let j = usize::from(j[0]);
        c[i] = c[j];
        c[j] = if hb[i + p.tau - 256] == 1 { -1 } else { 1 };
    }
    c
}
/// statistics of one RejNTTPoly run (for model-guided seed selection)
#[derive(Default, Clone, Debug)]
pub struct RejStats {
    pub rejected: Vec<i64>,
    pub max_accepted: i64,
    pub bytes_used: usize,
}
/// Algorithm 30: RejNTTPoly
pub fn rej_ntt_poly_stats(rho34: &[u8], st: &mut RejStats) -> Poly {
    assert_eq!(rho34.len(), 34);
    let mut x = sha3::Shake128::default();
    x.update(rho34);
    let mut rd = x.finalize_xof();
    let mut a = POLY0;
    let mut j = 0;
    while j < 256 {
        let mut s = [0u8; 3];
        rd.read(&mut s);
        st.bytes_used += 3;
        match coeff_from_three_bytes(s[0], s[1], s[2]) {
            Some(v) => {
                a[j] = v;
                st.max_accepted = st.max_accepted.max(i64::from(v));
                j += 1;
            }
            None => {
                let z = 65536 * i64::from(s[2] & 0x7f) + 256 * i64::from(s[1]) + i64::from(s[0]);
                st.rejected.push(z);
            }
        }
    }
    a
}
pub fn rej_ntt_poly(rho34: &[u8]) -> Poly { rej_ntt_poly_stats(rho34, &mut RejStats::default()) }

#[derive(Default, Clone, Debug)]
pub struct BoundedStats {
    pub rejected_nibbles: Vec<u8>,
    pub accepted_nibbles: [u32; 16],
    pub z1_discarded_at_end: bool,
    pub bytes_used: usize,
}
/// Algorithm 31: RejBoundedPoly
pub fn rej_bounded_poly_stats(eta: i64, rho66: &[u8], st: &mut BoundedStats) -> Poly {
    assert_eq!(rho66.len(), 66);
    let mut x = sha3::Shake256::default();
    x.update(rho66);
    let mut rd = x.finalize_xof();
    let mut a = POLY0;
    let mut j = 0;
    while j < 256 {
        let mut z = [0u8; 1];
        rd.read(&mut z);
        st.bytes_used += 1;
        let z0 = coeff_from_half_byte(eta, z[0] % 16);
        let z1 = coeff_from_half_byte(eta, z[0] / 16);
        match z0 {
            Some(v) => {
                a[j] = v;
                j += 1;
                st.accepted_nibbles[usize::from(z[0] % 16)] += 1;
            }
            None => st.rejected_nibbles.push(z[0] % 16),
        }
        match z1 {
            Some(v) => {
                if j < 256 {
                    a[j] = v;
                    j += 1;
                    st.accepted_nibbles[usize::from(z[0] / 16)] += 1;
                } else {
                    st.z1_discarded_at_end = true;
                }
            }
            None => st.rejected_nibbles.push(z[0] / 16),
        }
    }
    a
}
pub fn rej_bounded_poly(eta: i64, rho66: &[u8]) -> Poly { rej_bounded_poly_stats(eta, rho66, &mut BoundedStats::default()) }

/// Algorithm 32: ExpandA -> a_hat[r][s]
pub fn expand_a(p: &Params, rho: &[u8]) -> Vec<Vec<Poly>> {
    let mut a = Vec::new();
    for r in 0..p.k {
        let mut row = Vec::new();
        for s in 0..p.l {
            let mut rp = rho.to_vec();
            rp.extend(integer_to_bytes(s as u64, 1));
            rp.extend(integer_to_bytes(r as u64, 1));
            row.push(rej_ntt_poly(&rp));
        }
        a.push(row);
    }
    a
}
/// Algorithm 33: ExpandS
pub fn expand_s(p: &Params, rho64: &[u8]) -> (Vec<Poly>, Vec<Poly>) {
    let mut s1 = Vec::new();
    for r in 0..p.l {
        let mut rp = rho64.to_vec();
        rp.extend(integer_to_bytes(r as u64, 2));
        s1.push(rej_bounded_poly(p.eta, &rp));
    }
    let mut s2 = Vec::new();
    for r in 0..p.k {
        let mut rp = rho64.to_vec();
        rp.extend(integer_to_bytes((r + p.l) as u64, 2));
        s2.push(rej_bounded_poly(p.eta, &rp));
    }
    (s1, s2)
}
/// Algorithm 34: ExpandMask
pub fn expand_mask(p: &Params, rho64: &[u8], mu: usize) -> Vec<Poly> {
    let c = 1 + bitlen(p.gamma1 - 1);
    let mut y = Vec::new();
    for r in 0..p.l {
        let mut rp = rho64.to_vec();
        rp.extend(integer_to_bytes((mu + r) as u64, 2));
        let v = h(&[&rp], 32 * c);
        y.push(bit_unpack(&v, p.gamma1 - 1, p.gamma1));
    }
    y
}

// ---------------------------------------------------------------- Algorithms 35-40

/// Algorithm 35: Power2Round(r) -> (r1, r0)
pub fn power2round(r: i64) -> (i64, i64) {
    let rp = mod_q(r);
    let r0 = mod_pm(rp, 1 << D);
    ((rp - r0) / (1 << D), r0)
}
/// Algorithm 36: Decompose(r) -> (r1, r0)
pub fn decompose(gamma2: i64, r: i64) -> (i64, i64) {
    let rp = mod_q(r);
    let mut r0 = mod_pm(rp, 2 * gamma2);
    let r1;
    if rp - r0 == Q - 1 {
        r1 = 0;
        r0 -= 1;
    } else {
        r1 = (rp - r0) / (2 * gamma2);
    }
    (r1, r0)
}
/// Algorithm 37
pub fn high_bits(gamma2: i64, r: i64) -> i64 { decompose(gamma2, r).0 }
/// Algorithm 38
pub fn low_bits(gamma2: i64, r: i64) -> i64 { decompose(gamma2, r).1 }
/// Algorithm 39: MakeHint(z, r)
pub fn make_hint(gamma2: i64, z: i64, r: i64) -> bool { high_bits(gamma2, r) != high_bits(gamma2, r + z) }
/// Algorithm 40: UseHint(h, r)
pub fn use_hint(gamma2: i64, hbit: i64, r: i64) -> i64 {
    let m = (Q - 1) / (2 * gamma2);
    let (r1, r0) = decompose(gamma2, r);
    if hbit == 1 && r0 > 0 {
        return (r1 + 1).rem_euclid(m);
    }
    if hbit == 1 && r0 <= 0 {
        return (r1 - 1).rem_euclid(m);
    }
    r1
}

// ---------------------------------------------------------------- Algorithms 41-48

/// Algorithm 43: BitRev8
pub fn bitrev8(m: usize) -> usize {
    let b = integer_to_bits(m as i64, 8);
    let mut brev = vec![0u8; 8];
    for i in 0..8 {
        brev[i] = b[7 - i];
    }
    bits_to_integer(&brev) as usize
}
pub fn zetas() -> &'static [i64; 256] {
    static Z: std::sync::OnceLock<[i64; 256]> = std::sync::OnceLock::new();
    Z.get_or_init(|| core::array::from_fn(|k| pow_mod(ZETA, bitrev8(k) as u64)))
}
/// Algorithm 41: NTT (output canonical in [0,q))
pub fn ntt(w: &Poly) -> Poly {
    let zt = zetas();
    let mut wh: [i64; 256] = core::array::from_fn(|j| mod_q(i64::from(w[j])));
    let mut m = 0;
    let mut len = 128;
    while len >= 1 {
        let mut start = 0;
        while start < 256 {
            m += 1;
            let z = zt[m];
            for j in start..start + len {
                let t = z * wh[j + len] % Q;
                wh[j + len] = mod_q(wh[j] - t);
                wh[j] = mod_q(wh[j] + t);
            }
            start += 2 * len;
        }
        len /= 2;
    }
    core::array::from_fn(|j| wh[j] as i32)
}
/// Algorithm 42: NTT^-1 (output canonical in [0,q))
pub fn inv_ntt(wh: &Poly) -> Poly {
    let zt = zetas();
    let mut w: [i64; 256] = core::array::from_fn(|j| mod_q(i64::from(wh[j])));
    let mut m = 256;
    let mut len = 1;
    while len < 256 {
        let mut start = 0;
        while start < 256 {
            m -= 1;
            let z = mod_q(-zt[m]);
            for j in start..start + len {
                let t = w[j];
                w[j] = mod_q(t + w[j + len]);
                w[j + len] = mod_q(t - w[j + len]);
                w[j + len] = z * w[j + len] % Q;
            }
            start += 2 * len;
        }
        len *= 2;
    }
    let f = 8_347_681i64;
    core::array::from_fn(|j| (f * w[j] % Q) as i32)
}
/// Algorithm 44: AddNTT (also plain polynomial addition), canonical output
pub fn add_poly(a: &Poly, b: &Poly) -> Poly { core::array::from_fn(|i| mod_q(i64::from(a[i]) + i64::from(b[i])) as i32) }
pub fn sub_poly(a: &Poly, b: &Poly) -> Poly { core::array::from_fn(|i| mod_q(i64::from(a[i]) - i64::from(b[i])) as i32) }
/// Algorithm 45: MultiplyNTT
pub fn multiply_ntt(a: &Poly, b: &Poly) -> Poly { core::array::from_fn(|i| (mod_q(i64::from(a[i])) * mod_q(i64::from(b[i])) % Q) as i32) }
/// Algorithm 48: MatrixVectorNTT
pub fn matrix_vector_ntt(a: &[Vec<Poly>], v: &[Poly]) -> Vec<Poly> {
    a.iter()
        .map(|row| {
            let mut acc = POLY0;
            for (aij, vj) in row.iter().zip(v.iter()) {
                acc = add_poly(&acc, &multiply_ntt(aij, vj));
            }
            acc
        })
        .collect()
}
/// Schoolbook product in Z_q[X]/(X^256+1) with i128 accumulation, canonical output
pub fn schoolbook_mul(a: &Poly, b: &Poly) -> Poly {
    let mut acc = [0i128; 256];
    for i in 0..256 {
        if a[i] == 0 {
            continue;
        }
        for j in 0..256 {
            let prod = i128::from(a[i]) * i128::from(b[j]);
            if i + j < 256 {
                acc[i + j] += prod;
            } else {
                acc[i + j - 256] -= prod;
            }
        }
    }
    core::array::from_fn(|i| acc[i].rem_euclid(i128::from(Q)) as i32)
}
pub fn inf_norm_vec(v: &[Poly]) -> i64 {
    v.iter().flat_map(|p| p.iter()).map(|&c| mod_pm(i64::from(c), Q).abs()).max().unwrap_or(0)
}

// ---------------------------------------------------------------- Algorithm 6: KeyGen_internal

pub struct KeyGenOut {
    pub pk: Vec<u8>,
    pub sk: Vec<u8>,
    pub rho: Vec<u8>,
    pub rho_prime: Vec<u8>,
    pub key: Vec<u8>,
    pub tr: Vec<u8>,
    pub s1: Vec<Poly>,
    pub s2: Vec<Poly>,
    pub t: Vec<Poly>,
    pub t1: Vec<Poly>,
    pub t0: Vec<Poly>,
}
pub fn keygen_internal(p: &Params, xi: &[u8; 32]) -> KeyGenOut {
    let seed = h(&[xi, &integer_to_bytes(p.k as u64, 1), &integer_to_bytes(p.l as u64, 1)], 128);
    let rho = seed[..32].to_vec();
    let rho_prime = seed[32..96].to_vec();
    let key = seed[96..128].to_vec();
    let a_hat = expand_a(p, &rho);
    let (s1, s2) = expand_s(p, &rho_prime);
    let s1_hat: Vec<Poly> = s1.iter().map(ntt).collect();
    let as1 = matrix_vector_ntt(&a_hat, &s1_hat);
    let t: Vec<Poly> = (0..p.k).map(|i| add_poly(&inv_ntt(&as1[i]), &s2[i])).collect();
    let mut t1 = vec![POLY0; p.k];
    let mut t0 = vec![POLY0; p.k];
    for i in 0..p.k {
        for j in 0..256 {
            let (a, b) = power2round(i64::from(t[i][j]));
            t1[i][j] = a as i32;
            t0[i][j] = b as i32;
        }
    }
    let pk = pk_encode(p, &rho, &t1);
    let tr = h(&[&pk], 64);
    let sk = sk_encode(p, &rho, &key, &tr, &s1, &s2, &t0);
    KeyGenOut { pk, sk, rho, rho_prime, key, tr, s1, s2, t, t1, t0 }
}

// ---------------------------------------------------------------- Algorithm 7: Sign_internal

/// Decoded private key plus the NTT-domain values Algorithm 7 computes in steps 1-5 (cached).
pub struct SkCtx {
    pub p: &'static Params,
    pub parts: SkParts,
    pub s1_hat: Vec<Poly>,
    pub s2_hat: Vec<Poly>,
    pub t0_hat: Vec<Poly>,
    pub a_hat: Vec<Vec<Poly>>,
}
impl SkCtx {
    pub fn new(p: &'static Params, sk: &[u8]) -> SkCtx {
        let parts = sk_decode(p, sk);
        let s1_hat = parts.s1.iter().map(ntt).collect();
        let s2_hat = parts.s2.iter().map(ntt).collect();
        let t0_hat = parts.t0.iter().map(ntt).collect();
        let a_hat = expand_a(p, &parts.rho);
        SkCtx { p, parts, s1_hat, s2_hat, t0_hat, a_hat }
    }
}
#[derive(Clone, Copy, Debug, PartialEq, Eq)]
pub enum Reject {
    ZNorm,
    R0Norm,
    Ct0Norm,
    HintWeight,
}
#[derive(Clone, Debug, Default)]
pub struct SignOpts {
    pub skip_z_check: bool,
    pub skip_r0_check: bool,
    pub skip_ct0_check: bool,
    pub skip_weight_check: bool,
    /// give up after this many iterations (0 = unlimited)
    pub max_iters: usize,
}
#[derive(Clone, Debug, Default)]
pub struct SignInfo {
    pub iterations: usize,
    pub kappa_final: usize,
    pub rejects: Vec<Reject>,
    pub z_norm: i64,
    pub r0_norm: i64,
    pub ct0_norm: i64,
    pub hint_weight: usize,
    pub hint_counts: Vec<usize>,
    /// some coefficient of w hit the Decompose corner r+ - r0 = q-1
    pub w_corner: bool,
    /// rejected attempts that sat EXACTLY on a rejection boundary (the first value that must be rejected)
    pub boundary_rejections: Vec<&'static str>,
    /// challenge polynomial of the first attempt that passed the z / r0 tests (it does not depend on t0)
    pub first_c_after_zr0: Option<Poly>,
    pub mu: Vec<u8>,
    /// for every attempt rejected by the z-norm test: flat index (polynomial * 256 + coefficient) of the first coefficient
    /// of z outside the bound
    pub first_bad_z: Vec<usize>,
}
pub fn mu_of(tr: &[u8], m_prime: &[u8]) -> Vec<u8> { h(&[tr, m_prime], 64) }

pub fn sign_internal_ctx(ctx: &SkCtx, m_prime: &[u8], rnd: &[u8; 32], opts: &SignOpts) -> (Option<Vec<u8>>, SignInfo) {
    let p = ctx.p;
    let mut info = SignInfo::default();
    let mu = mu_of(&ctx.parts.tr, m_prime);
    info.mu = mu.clone();
    let rho_pp = h(&[&ctx.parts.key, rnd, &mu], 64);
    let mut kappa = 0usize;
    loop {
        if opts.max_iters != 0 && info.iterations >= opts.max_iters {
            info.kappa_final = kappa;
            return (None, info);
        }
        info.iterations += 1;
        let y = expand_mask(p, &rho_pp, kappa);
        let y_hat: Vec<Poly> = y.iter().map(ntt).collect();
        let w: Vec<Poly> = matrix_vector_ntt(&ctx.a_hat, &y_hat).iter().map(inv_ntt).collect();
        let mut w1 = vec![POLY0; p.k];
        let mut corner = false;
        for i in 0..p.k {
            for j in 0..256 {
                let wv = i64::from(w[i][j]);
                w1[i][j] = high_bits(p.gamma2, wv) as i32;
                if mod_q(wv) - mod_pm(mod_q(wv), 2 * p.gamma2) == Q - 1 {
                    corner = true;
                }
            }
        }
        let c_tilde = h(&[&mu, &w1_encode(p, &w1)], p.ctilde_len());
        let c = sample_in_ball(p, &c_tilde);
        let c_hat = ntt(&c);
        let cs1: Vec<Poly> = ctx.s1_hat.iter().map(|s| inv_ntt(&multiply_ntt(&c_hat, s))).collect();
        let cs2: Vec<Poly> = ctx.s2_hat.iter().map(|s| inv_ntt(&multiply_ntt(&c_hat, s))).collect();
        let z: Vec<Poly> = (0..p.l).map(|i| add_poly(&y[i], &cs1[i])).collect();
        let w_cs2: Vec<Poly> = (0..p.k).map(|i| sub_poly(&w[i], &cs2[i])).collect();
        let r0: Vec<Poly> =
            w_cs2.iter().map(|poly| core::array::from_fn(|j| low_bits(p.gamma2, i64::from(poly[j])) as i32)).collect();
        let z_norm = inf_norm_vec(&z);
        let r0_norm = r0.iter().flat_map(|q| q.iter()).map(|&c| i64::from(c).abs()).max().unwrap();
        kappa += p.l;
        if !opts.skip_z_check && z_norm >= p.gamma1 - p.beta {
            info.rejects.push(Reject::ZNorm);
            info.first_bad_z.push((0..p.l * 256).find(|&n| mod_pm(i64::from(z[n / 256][n % 256]), Q).abs() >= p.gamma1 - p.beta).unwrap_or(usize::MAX));
            if z_norm == p.gamma1 - p.beta && r0_norm < p.gamma2 - p.beta {
                info.boundary_rejections.push("z_norm==gamma1-beta");
            }
            continue;
        }
        if !opts.skip_r0_check && r0_norm >= p.gamma2 - p.beta {
            info.rejects.push(Reject::R0Norm);
            if r0_norm == p.gamma2 - p.beta {
                info.boundary_rejections.push("r0_norm==gamma2-beta");
            }
            continue;
        }
        if info.first_c_after_zr0.is_none() {
            info.first_c_after_zr0 = Some(c);
        }
        let ct0: Vec<Poly> = ctx.t0_hat.iter().map(|s| inv_ntt(&multiply_ntt(&c_hat, s))).collect();
        let mut hint = vec![POLY0; p.k];
        let mut counts = vec![0usize; p.k];
        for i in 0..p.k {
            for j in 0..256 {
                let minus_ct0 = -i64::from(ct0[i][j]);
                let r = i64::from(w_cs2[i][j]) + i64::from(ct0[i][j]);
                if make_hint(p.gamma2, minus_ct0, r) {
                    hint[i][j] = 1;
                    counts[i] += 1;
                }
            }
        }
        let ct0_norm = inf_norm_vec(&ct0);
        let weight: usize = counts.iter().sum();
        if !opts.skip_ct0_check && ct0_norm >= p.gamma2 {
            info.rejects.push(Reject::Ct0Norm);
            if ct0_norm == p.gamma2 && weight <= p.omega {
                info.boundary_rejections.push("ct0_norm==gamma2");
            }
            continue;
        }
        if !opts.skip_weight_check && weight > p.omega {
            info.rejects.push(Reject::HintWeight);
            if weight == p.omega + 1 {
                info.boundary_rejections.push("hint_weight==omega+1");
            }
            continue;
        }
        info.kappa_final = kappa;
        info.z_norm = z_norm;
        info.r0_norm = r0_norm;
        info.ct0_norm = ct0_norm;
        info.hint_weight = weight;
        info.hint_counts = counts;
        info.w_corner = corner;
        if weight > p.omega {
            // cannot be encoded; only reachable with skip_weight_check
            return (None, info);
        }
        let z_pm: Vec<Poly> = z.iter().map(|poly| core::array::from_fn(|j| mod_pm(i64::from(poly[j]), Q) as i32)).collect();
        if z_pm.iter().flat_map(|q| q.iter()).any(|&c| i64::from(c) > p.gamma1 || i64::from(c) < -(p.gamma1 - 1)) {
            // not encodable (only with skip_z_check)
            return (None, info);
        }
        return (Some(sig_encode(p, &c_tilde, &z_pm, &hint)), info);
    }
}
/// Algorithm 7 on a private-key byte string
pub fn sign_internal(p: &'static Params, sk: &[u8], m_prime: &[u8], rnd: &[u8; 32]) -> Vec<u8> {
    sign_internal_ctx(&SkCtx::new(p, sk), m_prime, rnd, &SignOpts::default()).0.expect("unlimited loop returns a signature")
}

// ---------------------------------------------------------------- Algorithm 8: Verify_internal

pub struct PkCtx {
    pub p: &'static Params,
    pub pk: Vec<u8>,
    pub rho: Vec<u8>,
    pub t1: Vec<Poly>,
    pub tr: Vec<u8>,
    pub a_hat: Vec<Vec<Poly>>,
    pub t1_2d_hat: Vec<Poly>,
}
impl PkCtx {
    pub fn new(p: &'static Params, pk: &[u8]) -> PkCtx {
        let (rho, t1) = pk_decode(p, pk);
        let a_hat = expand_a(p, &rho);
        let tr = h(&[pk], 64);
        let t1_2d_hat =
            t1.iter().map(|poly| ntt(&core::array::from_fn(|j| (i64::from(poly[j]) * (1 << D) % Q) as i32))).collect();
        PkCtx { p, pk: pk.to_vec(), rho, t1, tr, a_hat, t1_2d_hat }
    }
}
#[derive(Clone, Copy, Debug, PartialEq, Eq)]
pub enum VerifyOutcome {
    Accept,
    HintMalformed,
    ZNorm,
    CTildeMismatch,
    ZNormAndCTilde,
}
/// w'approx = A z - c t1 2^d for given z and c_tilde (step 9), canonical
pub fn w_approx(ctx: &PkCtx, z: &[Poly], c_tilde: &[u8]) -> Vec<Poly> {
    let p = ctx.p;
    let c = sample_in_ball(p, c_tilde);
    let c_hat = ntt(&c);
    let z_hat: Vec<Poly> = z.iter().map(ntt).collect();
    let az = matrix_vector_ntt(&ctx.a_hat, &z_hat);
    (0..p.k).map(|i| inv_ntt(&sub_poly(&az[i], &multiply_ntt(&c_hat, &ctx.t1_2d_hat[i])))).collect()
}
pub fn use_hint_vec(p: &Params, hint: &[Poly], w: &[Poly]) -> Vec<Poly> {
    (0..p.k)
        .map(|i| core::array::from_fn(|j| use_hint(p.gamma2, i64::from(hint[i][j]), i64::from(w[i][j])) as i32))
        .collect()
}
pub fn verify_internal_ctx(ctx: &PkCtx, m_prime: &[u8], sig: &[u8]) -> VerifyOutcome {
    let p = ctx.p;
    let (c_tilde, z, hint) = sig_decode(p, sig);
    let Some(hint) = hint else { return VerifyOutcome::HintMalformed };
    let mu = mu_of(&ctx.tr, m_prime);
    let wa = w_approx(ctx, &z, &c_tilde);
    let w1p = use_hint_vec(p, &hint, &wa);
    let c_tilde_p = h(&[&mu, &w1_encode(p, &w1p)], p.ctilde_len());
    let norm_ok = inf_norm_vec(&z) < p.gamma1 - p.beta;
    let c_ok = c_tilde == c_tilde_p;
    match (norm_ok, c_ok) {
        (true, true) => VerifyOutcome::Accept,
        (false, true) => VerifyOutcome::ZNorm,
        (true, false) => VerifyOutcome::CTildeMismatch,
        (false, false) => VerifyOutcome::ZNormAndCTilde,
    }
}
pub fn verify_internal(p: &'static Params, pk: &[u8], m_prime: &[u8], sig: &[u8]) -> bool {
    verify_internal_ctx(&PkCtx::new(p, pk), m_prime, sig) == VerifyOutcome::Accept
}

// ---------------------------------------------------------------- Algorithms 2-5: external interface

#[derive(Clone, Copy, Debug, PartialEq, Eq, PartialOrd, Ord, Hash)]
pub enum Mode {
    Pure,
    Sha256,
    Sha512,
    Shake128,
    /// the deprecated `_internal_*` interface: the caller's message is M' itself
    Internal,
}
pub const EXTERNAL_MODES: [Mode; 4] = [Mode::Pure, Mode::Sha256, Mode::Sha512, Mode::Shake128];
pub const ALL_MODES: [Mode; 5] = [Mode::Pure, Mode::Sha256, Mode::Sha512, Mode::Shake128, Mode::Internal];

pub fn oid(mode: Mode) -> [u8; 11] {
    match mode {
        Mode::Sha256 => [0x06, 0x09, 0x60, 0x86, 0x48, 0x01, 0x65, 0x03, 0x04, 0x02, 0x01],
        Mode::Sha512 => [0x06, 0x09, 0x60, 0x86, 0x48, 0x01, 0x65, 0x03, 0x04, 0x02, 0x03],
        Mode::Shake128 => [0x06, 0x09, 0x60, 0x86, 0x48, 0x01, 0x65, 0x03, 0x04, 0x02, 0x0B],
        _ => panic!("no OID"),
    }
}
pub fn prehash(mode: Mode, m: &[u8]) -> Vec<u8> {
    match mode {
        Mode::Sha256 => sha2::Sha256::digest(m).to_vec(),
        Mode::Sha512 => sha2::Sha512::digest(m).to_vec(),
        Mode::Shake128 => shake128(&[m], 32),
        _ => panic!("no prehash"),
    }
}
/// M' of Algorithms 2/3 (pure), 4/5 (pre-hash) or the raw message (internal). None if |ctx| > 255.
pub fn format_message(mode: Mode, m: &[u8], ctx: &[u8]) -> Option<Vec<u8>> {
    if ctx.len() > 255 {
        return None;
    }
    let mut mp = Vec::new();
    match mode {
        Mode::Internal => mp.extend_from_slice(m),
        Mode::Pure => {
            mp.extend(integer_to_bytes(0, 1));
            mp.extend(integer_to_bytes(ctx.len() as u64, 1));
            mp.extend_from_slice(ctx);
            mp.extend_from_slice(m);
        }
        _ => {
            mp.extend(integer_to_bytes(1, 1));
            mp.extend(integer_to_bytes(ctx.len() as u64, 1));
            mp.extend_from_slice(ctx);
            mp.extend_from_slice(&oid(mode));
            mp.extend(prehash(mode, m));
        }
    }
    Some(mp)
}
/// Algorithms 2 / 4 with rnd supplied; None = error (context too long)
pub fn sign(ctx: &SkCtx, mode: Mode, m: &[u8], context: &[u8], rnd: &[u8; 32]) -> Option<Vec<u8>> {
    let mp = format_message(mode, m, context)?;
    sign_internal_ctx(ctx, &mp, rnd, &SignOpts::default()).0
}
pub fn sign_info(ctx: &SkCtx, mode: Mode, m: &[u8], context: &[u8], rnd: &[u8; 32]) -> Option<(Vec<u8>, SignInfo)> {
    let mp = format_message(mode, m, context)?;
    let (s, i) = sign_internal_ctx(ctx, &mp, rnd, &SignOpts::default());
    Some((s.unwrap(), i))
}
/// Algorithms 3 / 5
pub fn verify(ctx: &PkCtx, mode: Mode, m: &[u8], context: &[u8], sig: &[u8]) -> bool {
    let Some(mp) = format_message(mode, m, context) else { return false };
    verify_internal_ctx(ctx, &mp, sig) == VerifyOutcome::Accept
}

// ---------------------------------------------------------------- forging for the zero-t1 key (DESIGN 3.1a)

/// pk = rho || SimpleBitPack(0): the public key of s1 = s2 = 0
pub fn zero_t1_pk(p: &Params, rho: &[u8; 32]) -> Vec<u8> { pk_encode(p, rho, &vec![POLY0; p.k]) }

/// For a zero-t1 key, w'approx = A z independent of c. Build the signature bytes
/// c_tilde || BitPack(z) || hint_section where c_tilde = H(mu || w1Encode(UseHint(h_for_ctilde, A z))).
/// `hint_section` is emitted verbatim (may be malformed); `h_for_ctilde` is the hint vector the commitment is
/// computed for. z coefficients must lie in [-(gamma1-1), gamma1] to be encodable.
pub fn forge_zero_t1(ctx: &PkCtx, m_prime: &[u8], z: &[Poly], h_for_ctilde: &[Poly], hint_section: &[u8]) -> Vec<u8> {
    let az = az_of(ctx, z);
    forge_zero_t1_az(ctx, m_prime, z, &az, h_for_ctilde, hint_section)
}
/// A z (canonical), for a zero-t1 key this is w'approx whatever the challenge
pub fn az_of(ctx: &PkCtx, z: &[Poly]) -> Vec<Poly> {
    let z_hat: Vec<Poly> = z.iter().map(ntt).collect();
    matrix_vector_ntt(&ctx.a_hat, &z_hat).iter().map(inv_ntt).collect()
}
pub fn forge_zero_t1_az(ctx: &PkCtx, m_prime: &[u8], z: &[Poly], az: &[Poly], h_for_ctilde: &[Poly], hint_section: &[u8]) -> Vec<u8> {
    let p = ctx.p;
    assert!(ctx.t1.iter().all(|poly| poly.iter().all(|&c| c == 0)), "forge needs a zero-t1 key");
    assert_eq!(hint_section.len(), p.omega + p.k);
    let w1 = use_hint_vec(p, h_for_ctilde, az);
    let mu = mu_of(&ctx.tr, m_prime);
    let c_tilde = h(&[&mu, &w1_encode(p, &w1)], p.ctilde_len());
    let mut s = c_tilde;
    for i in 0..p.l {
        s.extend(bit_pack(&z[i], p.gamma1 - 1, p.gamma1));
    }
    s.extend_from_slice(hint_section);
    s
}

pub fn hex(b: &[u8]) -> String { b.iter().map(|x| format!("{x:02x}")).collect() }
pub fn unhex(s: &str) -> Vec<u8> {
    assert!(s.len() % 2 == 0);
    (0..s.len() / 2).map(|i| u8::from_str_radix(&s[2 * i..2 * i + 2], 16).expect("hex")).collect()
}

#[cfg(test)]
mod tests {
    use super::*;
    #[test]
    fn roundtrip_smoke() {
        for p in ALL_PARAMS {
            let kg = keygen_internal(p, &[7u8; 32]);
            assert_eq!(kg.pk.len(), p.pk_len);
            assert_eq!(kg.sk.len(), p.sk_len);
            let sk = SkCtx::new(p, &kg.sk);
            let pk = PkCtx::new(p, &kg.pk);
            for mode in EXTERNAL_MODES {
                let sig = sign(&sk, mode, b"hello", b"ctx", &[1u8; 32]).unwrap();
                assert_eq!(sig.len(), p.sig_len);
                assert!(verify(&pk, mode, b"hello", b"ctx", &sig));
                assert!(!verify(&pk, mode, b"hellp", b"ctx", &sig));
            }
        }
    }
    #[test]
    fn ntt_is_product() {
        let a: Poly = core::array::from_fn(|i| (i as i32 * 7919) % 8380417);
        let b: Poly = core::array::from_fn(|i| ((i as i32 + 3) * 104729) % 8380417);
        assert_eq!(inv_ntt(&multiply_ntt(&ntt(&a), &ntt(&b))), schoolbook_mul(&a, &b));
    }
}
