//! Links fips204 into a `#![no_std]` static library that brings its own panic handler: if anything in
//! the dependency graph pulled in `std`, the duplicate `panic_impl` lang item fails this build.
#![no_std]

#[panic_handler]
fn panic(_: &core::panic::PanicInfo) -> ! { loop {} }

#[no_mangle]
pub extern "C" fn probe(seed: &[u8; 32], out: &mut [u8; 32]) {
    use fips204::traits::{KeyGen, SerDes};
    #[cfg(feature = "ml-dsa-44")]
    {
        let (pk, _sk) = fips204::ml_dsa_44::KG::keygen_from_seed(seed);
        out.copy_from_slice(&pk.into_bytes()[..32]);
    }
    #[cfg(feature = "ml-dsa-65")]
    {
        let (pk, _sk) = fips204::ml_dsa_65::KG::keygen_from_seed(seed);
        out.copy_from_slice(&pk.into_bytes()[..32]);
    }
    #[cfg(feature = "ml-dsa-87")]
    {
        let (pk, _sk) = fips204::ml_dsa_87::KG::keygen_from_seed(seed);
        out.copy_from_slice(&pk.into_bytes()[..32]);
    }
}
