//! Feature-forwarding known-answer probe: for every enabled parameter set prints
//!   KAT <set> got=<digest> want=<digest> zeroize=<ok|residue> [osrng=<ok|fail>] [dudect=<digest>]
//! `got` = SHAKE256 over the library's keys, signatures and verification decisions for a fixed probe list,
//! `want` = the same transcript computed by the reference model. Identical across configurations iff the
//! enabled set behaves the same in each of them.
#![allow(unused)]
use rand_core::{CryptoRng, RngCore};
use refmodel::{Mode, Params, PkCtx, SkCtx, POLY0};

struct Replay(Vec<u8>);
impl RngCore for Replay {
    fn next_u32(&mut self) -> u32 { unimplemented!() }
    fn next_u64(&mut self) -> u64 { unimplemented!() }
    fn fill_bytes(&mut self, d: &mut [u8]) { unimplemented!() }
    fn try_fill_bytes(&mut self, d: &mut [u8]) -> Result<(), rand_core::Error> {
        for (i, b) in d.iter_mut().enumerate() {
            *b = self.0[i % self.0.len()];
        }
        Ok(())
    }
}
impl CryptoRng for Replay {}

// ---- heap path: what is left in a Box<key> block after an ordinary `drop(Box)`. As far as the optimiser can tell nobody
// reads the block again, exactly as in an application, so a wipe made of ordinary stores may be removed as dead stores in
// front of the deallocation (a custom global allocator would hide that: with one installed the stores are kept, measured).
// The freed block is therefore read back through a laundered address. Formally that is a read of freed memory; with glibc a
// block of this size stays mapped, and only its first 32 bytes (free-list links) are written by free(), so those are skipped.
// A small allocation made after the key keeps the block away from the top of the heap (no trimming).
#[inline(never)]
fn heap_residue<T>(b: Box<T>) -> usize {
    let n = core::mem::size_of::<T>();
    let addr = std::hint::black_box(&*b as *const T as usize);
    drop(b);
    let p = std::hint::black_box(addr) as *const u8;
    (64..n).filter(|&i| unsafe { core::ptr::read_volatile(p.add(i)) } != 0).count()
}
/// box the key, pin the heap top with a later allocation, drop the key
macro_rules! heap_case {
    ($v:expr) => {{
        let b = Box::new($v);
        let guard: Box<[u8; 256]> = std::hint::black_box(Box::new([0xA5u8; 256]));
        let r = heap_residue(b);
        drop(guard);
        r
    }};
}

/// drop the object in place and look at every byte of its former representation
fn wiped<T>(v: T) -> bool {
    let n = core::mem::size_of::<T>();
    let mut slot = Box::new(core::mem::ManuallyDrop::new(v));
    let ptr = (&mut **slot as *mut T).cast::<u8>();
    unsafe { core::mem::ManuallyDrop::drop(&mut *slot) };
    (0..n).all(|i| unsafe { core::ptr::read_volatile(ptr.add(i)) } == 0)
}

/// a generator that fails every request after writing `partial` bytes, with an OS-style error code
struct Failing {
    partial: usize,
    code: u32,
}
impl RngCore for Failing {
    fn next_u32(&mut self) -> u32 { unimplemented!() }
    fn next_u64(&mut self) -> u64 { unimplemented!() }
    fn fill_bytes(&mut self, d: &mut [u8]) { unimplemented!() }
    fn try_fill_bytes(&mut self, d: &mut [u8]) -> Result<(), rand_core::Error> {
        for b in d.iter_mut().take(self.partial) {
            *b = 0x3C;
        }
        Err(rand_core::Error::from(core::num::NonZeroU32::new(self.code).unwrap()))
    }
}
impl CryptoRng for Failing {}

fn probes() -> Vec<(Mode, Vec<u8>, Vec<u8>, [u8; 32])> {
    let mut v = Vec::new();
    for (i, mode) in [Mode::Pure, Mode::Sha256, Mode::Sha512, Mode::Shake128].into_iter().enumerate() {
        v.push((mode, vec![i as u8; [0usize, 9, 137, 1000][i]], vec![7u8; [0usize, 255, 1, 128][i]], [0x11 * (i as u8 + 1); 32]));
        v.push((mode, b"second".to_vec(), vec![], [0u8; 32]));
    }
    v
}

macro_rules! kat {
    ($feat:literal, $ns:ident, $params:expr) => {
        #[cfg(feature = $feat)]
        {
            use fips204::traits::{KeyGen, SerDes, Signer, Verifier};
            use fips204::$ns as ns;
            let p: &'static Params = $params;
            let xi = [0x5Cu8; 32];
            let mut got: Vec<u8> = Vec::new();
            let mut want: Vec<u8> = Vec::new();
            let kg = refmodel::keygen_internal(p, &xi);
            let (pk, sk) = ns::KG::keygen_from_seed(&xi);
            let (pk2, sk2) = ns::try_keygen_with_rng(&mut Replay(xi.to_vec())).unwrap();
            got.extend_from_slice(&pk.clone().into_bytes());
            got.extend_from_slice(&sk.clone().into_bytes());
            got.extend_from_slice(&pk2.into_bytes());
            got.extend_from_slice(&sk2.into_bytes());
            got.extend_from_slice(&sk.get_public_key().into_bytes());
            for _ in 0..2 {
                want.extend_from_slice(&kg.pk);
                want.extend_from_slice(&kg.sk);
            }
            want.extend_from_slice(&kg.pk);
            let skc = SkCtx::new(p, &kg.sk);
            let pkc = PkCtx::new(p, &kg.pk);
            for (mode, m, c, rnd) in probes() {
                let ph = match mode { Mode::Sha256 => Some(fips204::Ph::SHA256), Mode::Sha512 => Some(fips204::Ph::SHA512), Mode::Shake128 => Some(fips204::Ph::SHAKE128), _ => None };
                let sig = match &ph {
                    None => sk.try_sign_with_rng(&mut Replay(rnd.to_vec()), &m, &c).unwrap(),
                    Some(ph) => sk.try_hash_sign_with_rng(&mut Replay(rnd.to_vec()), &m, &c, ph).unwrap(),
                };
                let wsig = refmodel::sign(&skc, mode, &m, &c, &rnd).unwrap();
                got.extend_from_slice(&sig);
                want.extend_from_slice(&wsig);
                // decisions: valid, perturbed, wrong context
                let mut bad = sig;
                bad[p.ctilde_len() + 3] ^= 4;
                let c2 = [&c[..c.len().min(254)], &[9u8][..]].concat();
                for (s, cc) in [(&sig, &c), (&bad, &c), (&sig, &c2)] {
                    let d = match &ph { None => pk.verify(&m, s, cc), Some(ph) => pk.hash_verify(&m, s, cc, ph) };
                    got.push(u8::from(d));
                    want.push(u8::from(refmodel::verify(&pkc, mode, &m, cc, &s[..])));
                }
            }
            // boundary decisions through the zero-t1 key (valid-except-one-condition signatures)
            let pk0b = refmodel::zero_t1_pk(p, &[0x42u8; 32]);
            let pk0c = PkCtx::new(p, &pk0b);
            let pk0 = ns::PublicKey::try_from_bytes(pk0b.clone().try_into().unwrap()).unwrap();
            let mp = refmodel::format_message(Mode::Pure, b"cfg", b"").unwrap();
            let g = (p.gamma1 - p.beta) as i32;
            for v in [g - 1, g, -(g - 1), -g] {
                let mut z = vec![POLY0; p.l];
                z[p.l - 1][255] = v;
                let s = refmodel::forge_zero_t1(&pk0c, &mp, &z, &vec![POLY0; p.k], &vec![0u8; p.omega + p.k]);
                let arr: [u8; ns::SIG_LEN] = s.clone().try_into().unwrap();
                got.push(u8::from(pk0.verify(b"cfg", &arr, b"")));
                want.push(u8::from(refmodel::verify(&pk0c, Mode::Pure, b"cfg", b"", &s)));
            }
            // malformed private key (one s1 field out of range) must be rejected; a valid one must be accepted and round-trip
            {
                let mut bad = kg.sk.clone();
                bad[128] |= if p.eta == 2 { 0x07 } else { 0x0F };
                want.push(u8::from(refmodel::sk_fields_in_range(p, &bad)));
                let arr: [u8; ns::SK_LEN] = bad.try_into().unwrap();
                got.push(u8::from(ns::PrivateKey::try_from_bytes(arr).is_ok()));
                let arr: [u8; ns::SK_LEN] = kg.sk.clone().try_into().unwrap();
                got.push(u8::from(ns::PrivateKey::try_from_bytes(arr).map(|k| k.into_bytes().to_vec() == kg.sk).unwrap_or(false)));
                want.push(1);
            }
            // zeroize on drop in this configuration
            // every provenance of both key types: generated, deserialised, derived, cloned
            let zero = {
                let sk_b = sk.clone().into_bytes();
                let pk_b = pk.clone().into_bytes();
                let mut ok = wiped(sk.clone()) && wiped(pk.clone());
                ok &= wiped(ns::PrivateKey::try_from_bytes(sk_b).unwrap()) && wiped(ns::PublicKey::try_from_bytes(pk_b).unwrap());
                ok &= wiped(sk.get_public_key());
                let (pk_g, sk_g) = ns::KG::keygen_from_seed(&[0x5Au8; 32]);
                ok &= wiped(pk_g) && wiped(sk_g);
                ok
            };
            // the same provenances through Box + ordinary drop, inspected by the allocator
            let heap: usize = {
                let sk_b = sk.clone().into_bytes();
                let pk_b = pk.clone().into_bytes();
                let (pk_g, sk_g) = ns::KG::keygen_from_seed(&[0x5Au8; 32]);
                [
                    heap_case!(sk.clone()),
                    heap_case!(pk.clone()),
                    heap_case!(ns::PrivateKey::try_from_bytes(sk_b).unwrap()),
                    heap_case!(ns::PublicKey::try_from_bytes(pk_b).unwrap()),
                    heap_case!(sk.get_public_key()),
                    heap_case!(pk_g),
                    heap_case!(sk_g),
                ]
                .iter()
                .fold(0usize, |a, &r| a.saturating_add(r))
            };
            // RNG failure must be reported in THIS configuration too (no key, no signature), for every entry point
            let rngfail = {
                let mut ok = true;
                for (partial, code) in [(0usize, 5u32), (16, 4), (31, 11), (0, rand_core::Error::CUSTOM_START + 7)] {
                    ok &= ns::KG::try_keygen_with_rng(&mut Failing { partial, code }).is_err();
                    ok &= sk.try_sign_with_rng(&mut Failing { partial, code }, b"m", b"c").is_err();
                    ok &= sk.try_hash_sign_with_rng(&mut Failing { partial, code }, b"m", b"c", &fips204::Ph::SHA512).is_err();
                }
                ok
            };
            let mut line = format!("KAT {} got={} want={} zeroize={}", p.id, refmodel::hex(&refmodel::shake256(&[&got], 32)), refmodel::hex(&refmodel::shake256(&[&want], 32)), if zero { "ok" } else { "residue" });
            line.push_str(&format!(" rngfail={}", if rngfail { "ok" } else { "not-reported" }));
            line.push_str(&format!(" zeroize_heap={}", if heap == 0 { "ok".to_string() } else { format!("residue:{heap}") }));
            #[cfg(feature = "default-rng")]
            {
                let r = (|| -> Result<bool, &'static str> {
                    let (pk, sk) = ns::try_keygen()?;
                    let s1 = sk.try_sign(b"os", b"c")?;
                    let s2 = sk.try_hash_sign(b"os", b"c", &fips204::Ph::SHA256)?;
                    let (pk_b, _) = ns::KG::try_keygen()?;
                    Ok(pk.verify(b"os", &s1, b"c") && pk.hash_verify(b"os", &s2, b"c", &fips204::Ph::SHA256) && pk_b.into_bytes() != pk.into_bytes())
                })();
                line.push_str(&format!(" osrng={}", if r == Ok(true) { "ok" } else { "fail" }));
            }
            #[cfg(feature = "dudect")]
            {
                #[allow(deprecated)]
                let s = ns::dudect_keygen_sign_with_rng(&mut Replay(vec![0xA7; 32]), b"dudect").unwrap();
                line.push_str(&format!(" dudect={}", refmodel::hex(&refmodel::shake256(&[&s], 16))));
            }
            println!("{line}");
        }
    };
}

fn main() {
    kat!("ml-dsa-44", ml_dsa_44, &refmodel::P44);
    kat!("ml-dsa-65", ml_dsa_65, &refmodel::P65);
    kat!("ml-dsa-87", ml_dsa_87, &refmodel::P87);
    println!("DONE");
}
